#!/usr/bin/env python3
"""Regenerates /verif/seeded/README.md from the meta.json files."""
import json, os, glob
root = os.path.join(os.path.dirname(os.path.dirname(os.path.abspath(__file__))), "seeded")
rows = []
for d in sorted(glob.glob(os.path.join(root, "*/meta.json"))):
    m = json.load(open(d))
    rows.append((m["property"], m["name"], m.get("needs_to_manifest", ""), m.get("caught_by", "")))
out = ["# Independently written property-breaking changes", "",
       "Each directory holds a change to dbus2/zbus written by a sub-agent that was given only the property text and a",
       "scratch worktree of /repo (nothing from /verif): `patch.diff` (the library change), `seeded_demo.rs` (an integration",
       "test that fails with the change and passes without), `notes.md` (the author's description) and `meta.json` (what it",
       "needs to manifest, what was run to confirm it, which check catches it).  A change was kept only after confirming in",
       "the scratch worktree that the demo fails with it and passes without it and that the pinned suite still gives",
       "123 passed / 25 failed.  None of them is committed in /repo.", "",
       "To re-run one: `tools/try_seed.sh /verif/seeded/<name>/patch.diff <ID>...` (applies the patch to /repo, rebuilds,",
       "runs the quick checks named, restores /repo and rebuilds).", "",
       "| property | change | needs to manifest | caught by |", "|---|---|---|---|"]
for r in rows:
    out.append("| %s | `%s` | %s | %s |" % tuple(x.replace("|", "/") for x in r))
out += ["", "Checks that missed a change when it arrived and were strengthened because of it: C29 (no-reply calls), C30",
        "(handlers removing their own interface), C12 (deeply nested header field values), C14 (unknown-type messages",
        "with fds; fd-merging transport) for the C13 change, C25 (concurrent operation pairs, yielding getter), C33",
        "(persistent caching proxies on a shared object), C36 (bus-side AlreadyOwner, guided histories), and in the second",
        "batch (names ending in `b`) C26 (handlers that depend on a later call), C38 (queue exactly full at the failure,",
        "late consumer), C39 (several pending graceful shutdowns), C25 (an outer manager above the followed one), C29",
        "(slow property setter on the no-spawn interface), C37 (bus refusing AddMatch), C36 (NameAcquired right behind the",
        "InQueue reply), C33 (argument-filtered signal streams).  After that every kept change is caught",
        "by the quick tier at VERIF_SEED=0 (SWEEP.txt).", ""]
pending = [json.load(open(d))["name"] for d in sorted(glob.glob(os.path.join(root, "*/meta.json")))
           if "NOT RUN" in json.dumps(json.load(open(d)).get("confirmed_by_me", {}))]
if pending:
    out += ["", "Exception: for " + ", ".join("`%s`" % n for n in pending) + " the demo was confirmed both ways but the pinned suite",
            "was not re-run with the change (session ended); these entries are provisional until that is done.", ""]
open(os.path.join(root, "README.md"), "w").write("\n".join(out))
print(len(rows), "seeded changes")
