#!/usr/bin/env python3
"""usage: keep_seed.py <ID> <name> <needs...>  -- copies a confirmed seeded change from /tmp/wt_<ID>/SEED into
/verif/seeded/<name>/ with meta.json; the caught-by information is passed via env CAUGHT (free text)."""
import json, os, shutil, sys, re
pid, name = sys.argv[1], sys.argv[2]
needs = " ".join(sys.argv[3:])
pre = os.environ.get("WTPREFIX", "wt")
src = f"/tmp/{pre}_{pid}/SEED"
dst = f"/verif/seeded/{name}"
os.makedirs(dst, exist_ok=True)
for f in ("patch.diff", "seeded_demo.rs", "notes.md"):
    if os.path.exists(os.path.join(src, f)):
        shutil.copy(os.path.join(src, f), os.path.join(dst, f))
logf = f"/tmp/confirm_{pid}.log" if pre == "wt" else f"/tmp/confirm_{pre}_{pid}.log"
log = open(logf).read() if os.path.exists(logf) else ""
def section(title):
    m = re.search(r"== %s: %s\n(.*?)(?=\n== |\Z)" % (pid, title), log, re.S)
    return m.group(1).strip().splitlines() if m else []
meta = {
    "property": pid,
    "name": name,
    "origin": "independent sub-agent given only the property text and a scratch worktree of /repo",
    "needs_to_manifest": needs,
    "confirmed_by_me": {
        "demo_with_change": section("demo WITH change"),
        "existing_suite_with_change": section("existing suite WITH change"),
        "demo_without_change": section("demo WITHOUT change"),
        "commands": [
            "cargo test -p zbus --features p2p --offline --test seeded_demo   (in the scratch worktree, with and without patch.diff)",
            "cargo nextest run --workspace --no-fail-fast --offline          (in the scratch worktree, with patch.diff)",
            "/verif/tools/try_seed.sh <patch.diff> <IDs>                      (applies to /repo, runs the quick checks, restores /repo)",
        ],
    },
    "caught_by": os.environ.get("CAUGHT", ""),
    "base_commit": os.popen(f"git -C /tmp/{pre}_{pid} rev-parse --short HEAD").read().strip(),
}
json.dump(meta, open(os.path.join(dst, "meta.json"), "w"), indent=1)
print("kept", dst)
