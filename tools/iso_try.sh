#!/bin/sh
# usage: tools/iso_try.sh <patch.diff> <ID>...
# Like try_seed.sh but isolated: applies the patch to a scratch worktree of /repo (HEAD plus /repo's working-tree
# changes), builds a copy of /verif/sim against it under /tmp/isotry and runs the quick checks named.  /repo and
# /verif are not touched.  The scratch tree is kept between calls (incremental builds); `tools/iso_try.sh clean`
# removes it.
S=/tmp/isotry
export CARGO_NET_OFFLINE=true
if [ "$1" = clean ]; then git -C /repo worktree remove --force $S/repo 2>/dev/null; rm -rf $S; exit 0; fi
patch="$1"; shift
if [ ! -d $S/repo ]; then
    mkdir -p $S/verif
    git -C /repo worktree add --detach $S/repo HEAD -q || exit 2
fi
git -C $S/repo checkout -q --detach $(git -C /repo rev-parse HEAD) 2>/dev/null
git -C $S/repo checkout -- . ; git -C $S/repo clean -fdq
rsync -a --delete --exclude target --exclude replays --exclude .git /verif/ $S/verif/ 
sed -i "s#\"/repo/#\"$S/repo/#" $S/verif/sim/Cargo.toml
git -C $S/repo apply "$patch" || { echo "patch does not apply"; exit 2; }
(cd $S/verif/sim && cargo build --release --offline 2>&1 | grep -E "^error" -A8 | head -20)
for id in "$@"; do
    out=$(VERIF_DIR=$S/verif VERIF_SEED=${VERIF_SEED:-0} $S/verif/target/release/simcheck run "$id" quick 2>&1)
    echo "$out" | grep -E "VIOLATION|^  C[0-9]+/" | cut -c1-260 | head -4
    echo "$out" | tail -1 | cut -c1-160
done
git -C $S/repo checkout -- . ; git -C $S/repo clean -fdq
