#!/bin/sh
# usage: tools/try_seed.sh <patch.diff> <ID> [ID...]
# Applies a seeded change to /repo, runs the given quick checks, and always restores /repo.
patch="$1"; shift
cd /repo || exit 2
if [ -n "$(git status --porcelain --untracked-files=no)" ]; then echo "/repo is dirty, refusing"; exit 2; fi
git apply "$patch" || { echo "patch does not apply"; exit 2; }
trap 'git -C /repo checkout -- . ; cd /verif/sim && cargo build --release --offline >/dev/null 2>&1' EXIT
cd /verif/sim && cargo build --release --offline 2>&1 | grep -E "^error" -A8 | head -20
for id in "$@"; do
    out=$(VERIF_SEED=${VERIF_SEED:-0} /verif/target/release/simcheck run "$id" quick 2>&1)
    echo "$out" | grep -E "VIOLATION|^  C[0-9]+/" | cut -c1-260 | head -4
    echo "$out" | tail -1 | cut -c1-160
done
