#!/bin/sh
# usage: tools/corpus_sweep.sh <seed>...   (e.g. 1 2 3)
# Samples the "programs" quantifier per build: regenerates the interface corpus with each seed in a scratch copy of
# /verif (under /tmp/corpsweep, removed at the end), rebuilds and runs the quick checks that use the generated
# corpus (C26, C28, C33).  /verif itself is not touched; results go to stdout.
S=/tmp/corpsweep
export CARGO_NET_OFFLINE=true
rm -rf $S; mkdir -p $S
rsync -a --exclude target --exclude replays --exclude .git /verif/ $S/verif/
# recorded findings are plans over the *committed* corpus (interface / property indices): they mean something else
# under another corpus, so the fixed ones are not replayed here (known ones still suppress their fingerprint)
python3 -c "import json;p='$S/verif/known_findings.json';k=[e for e in json.load(open(p)) if e['status']=='known'];json.dump(k,open(p,'w'))"
for seed in "$@"; do
    python3 $S/verif/tools/gen_corpus.py --seed $seed --ifaces 16 > $S/verif/sim/src/corpus_gen.rs
    if ! (cd $S/verif/sim && cargo build --release --offline > $S/build.log 2>&1); then
        echo "corpus seed $seed: BUILD FAILED"; grep -E "^error" -A6 $S/build.log | head -30; continue
    fi
    for id in C26 C28 C33; do
        res=$(VERIF_DIR=$S/verif VERIF_SEED=${VERIF_SEED:-0} $S/verif/target/release/simcheck run $id quick 2>&1)
        echo "corpus seed $seed $id: $(echo "$res" | grep -E "^VIOLATION|^  $id/" | head -4 | cut -c1-300 | tr '\n' ' ') $(echo "$res" | tail -1 | cut -c1-120)"
    done
done
rm -rf $S
