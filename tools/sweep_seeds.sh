#!/bin/sh
# usage: tools/sweep_seeds.sh [name-prefix...]
# Runs every kept seeded change (or those whose directory name starts with a given prefix) against the quick
# checks listed in its meta.json ("checks"), in an isolated copy: a scratch worktree of /repo plus a copy of
# /verif/sim whose path dependencies point at that worktree.  /repo and /verif are not touched, so this can run
# in the background.  Writes /verif/seeded/SWEEP.txt.  Everything under /tmp/seedsweep is removed at the end.
S=/tmp/seedsweep
export CARGO_NET_OFFLINE=true
git -C /repo worktree remove --force $S/repo 2>/dev/null
rm -rf $S; mkdir -p $S/verif
git -C /repo worktree add --detach $S/repo HEAD -q || exit 2
(cd /repo && git diff HEAD) | git -C $S/repo apply 2>/dev/null   # working-tree changes of /repo, if any
rsync -a --exclude target --exclude replays --exclude .git /verif/ $S/verif/
sed -i "s#\"/repo/#\"$S/repo/#" $S/verif/sim/Cargo.toml
out=/verif/seeded/SWEEP.txt
tmp=$S/sweep.txt
echo "# seeded-change sweep: /repo $(git -C /repo rev-parse --short HEAD), /verif $(git -C /verif rev-parse --short HEAD), VERIF_SEED=${VERIF_SEED:-0}" > $tmp
echo "# <seeded change> <check> <result>" >> $tmp
for d in /verif/seeded/*/; do
    name=$(basename $d)
    if [ $# -gt 0 ]; then
        hit=0; for p in "$@"; do case "$name" in "$p"*) hit=1 ;; esac; done
        [ $hit = 1 ] || continue
    fi
    git -C $S/repo apply $d/patch.diff || { echo "$name - patch-does-not-apply" >> $tmp; continue; }
    if ! (cd $S/verif/sim && cargo build --release --offline > $S/build.log 2>&1); then
        echo "$name - build-failed" >> $tmp
    else
        for id in $(python3 -c "import json;print(' '.join(json.load(open('$d/meta.json'))['checks']))"); do
            res=$(VERIF_DIR=$S/verif VERIF_SEED=${VERIF_SEED:-0} $S/verif/target/release/simcheck run $id quick 2>&1)
            if echo "$res" | grep -q "^VIOLATION property=$id"; then
                fp=$(echo "$res" | grep -E "^  $id/" | head -1 | cut -d: -f1 | tr -d ' ')
                echo "$name $id CAUGHT $fp" >> $tmp
            else
                echo "$name $id MISSED $(echo "$res" | tail -1 | cut -c1-80)" >> $tmp
            fi
        done
    fi
    git -C $S/repo checkout -- . ; git -C $S/repo clean -fdq
done
# and the unchanged tree must be quiet
(cd $S/verif/sim && cargo build --release --offline > $S/build.log 2>&1)
if [ $# -gt 0 ] && [ -f $out ]; then
    # partial sweep: replace the lines of the changes that were re-run, keep the others
    python3 - $tmp $out <<'PY'
import sys
new=[l for l in open(sys.argv[1]) if not l.startswith('#')]
names={l.split()[0] for l in new}
old=open(sys.argv[2]).read().splitlines(True)
keep=[l for l in old if l.startswith('#') or l.split()[0] not in names]
head=[l for l in open(sys.argv[1]) if l.startswith('# seeded-change sweep')]
body=sorted([l for l in keep if not l.startswith('#')]+new)
open(sys.argv[2],'w').write(''.join([l for l in keep if l.startswith('#')]+['# partial re-run: '+h[2:] for h in head]+body))
PY
else
    cp $tmp $out
fi
git -C /repo worktree remove --force $S/repo; rm -rf $S
cat $out
