#!/usr/bin/env python3
"""Regenerates /verif/MANIFEST.json from the table below (kept next to the code so that the
manifest, the claimed checks and the not-applicable list never drift apart)."""
import json, os, subprocess, sys

VERIF = os.path.dirname(os.path.dirname(os.path.abspath(__file__)))

# id -> (level, technique, level text, level note, design ref)
CLAIMED = {
    "C12": ("exploration",
            "deterministic simulation (scoped): structure-aware corruption of messages in a live inbound stream, parsed on the reader task and then touched by consumer, rule-matching, dispatch and caller tasks; oracle = no task panics",
            "A hostile raw peer corrupts messages of all four types with 15 operators (hostile header strings, wrong-typed / missing / duplicated fields, header field values replaced by deeply nested containers, invalid or deep signatures, bit flips, length edits that keep the frame consistent, fd counts, garbage bodies) while an unfiltered consumer reads every accessor and formats the message, rule streams match on arguments, an object server dispatches and a method call is pending. Any panic in any task is a violation.",
            "Scoped: 'every byte string' is a pure-function quantifier that simulation does not cover; this decides only the part where a corrupted message is parsed on one task and used on others.",
            "DESIGN.md §3 C12"),
    "C33": ("exploration",
            "deterministic simulation: macro-generated async proxy (task) and blocking proxy (simulator-driven real thread) against the macro-generated interfaces (one hand-written, 16 generated with methods, properties and signals of generated types) over a pair of real connections; typed model of the handlers",
            "An async proxy on a task and a blocking proxy on a baton thread call every method of the corpus interface with seeded values, read and write its properties and receive its signal, under seeded schedules and read splits. Results, handler-side argument values, property read-after-write and both signal streams must match a typed model. The generated family adds: typed method round trips, persistent property proxies (cached and uncached, at the interface's own path and on a shared object where property names of different interfaces collide) with read-after-write through a model, and typed signals received by async streams and blocking iterators. The hand-written pair also covers a method taking and returning several file descriptors and signal streams filtered on an argument (receive_*_with_args).",
            "The generated family is fixed per build (macros expand at compile time; tools/gen_corpus.py --seed N regenerates it), so the 'programs' quantifier is sampled per build, not per run.",
            "DESIGN.md §3 C33"),
    "C25": ("exploration",
            "deterministic simulation: a real tracking client (snapshot + ordered signal replay) against at/remove histories incl. (re)registering the ObjectManager, with an operation racing the snapshot",
            "A real client takes GetManagedObjects while a server operation may run concurrently, then applies the InterfacesAdded/Removed signals it received since, in order and idempotently - the weakest client that could possibly work. After every further operation its view must equal a fresh listing (properties included). Operations also run as concurrent pairs (add || add, add || remove, remove || snapshot, with an async yielding property getter); for those the oracle only asks that some order of the pair explains the client's final view. A client of an inner manager also sees an outer manager at the root come and go (nested managers, judged from the inside). In a quarter of the runs the last at/remove is cancelled at a seeded await point: whether it took effect is open, the client must still track.",
            "A client of the root manager never sees a second manager (the root's listing would include objects that only an inner manager announces; the implementation documents that case as unsupported); nesting is judged from the inside only.",
            "DESIGN.md §3 C25"),
    "C28": ("exploration",
            "deterministic simulation: Get/GetAll/Set histories (sequential and pipelined) from a raw client against the real Properties interface of a hand-written and of 16 generated interfaces; linearizability against a property-map model plus signal accounting",
            "A raw client issues Get / GetAll / Set calls of every kind (right and wrong type, unknown, read-only, write-only, unknown interface) against properties of every access and emits-changed mode, one at a time or pipelined (Properties handlers run concurrently). Half of the runs target a generated interface (property types, access and emits-changed modes from the generator's table; values compared through a canonical rendering). The decoded history must be linearizable against a property map, and by quiescence the PropertiesChanged signals must be exactly those the successful Sets imply.",
            "The generated corpus is fixed per build; error names are not judged; one known finding (variant-typed properties are flattened) is listed in known_findings.json.",
            "DESIGN.md §3 C28"),
    "C31": ("exploration",
            "deterministic simulation: scripted server object placing PropertiesChanged signals before / with / after the GetAll reply in seeded wire orders; cache compared with a fold over the received history",
            "A real proxy (cache Yes or Lazily, some properties uncached) talks to a scripted object that delays the GetAll reply and emits changes and invalidations (own and foreign interface) around it and in later rounds. At every quiescent point cached_property, get_property and the last item of a change stream must equal the fold of the snapshot and the later signals in wire order.",
            "The change stream watches a property that the script never invalidates (reading an invalidated value through the stream refills the cache by design).",
            "DESIGN.md §3 C31"),
    "C32": ("exploration",
            "deterministic simulation: scripted bus histories (owner lookup result, genuine and forged ownership changes, signals from owner / former owner / strangers) in seeded wire orders around stream creation; owner-tracking reference model",
            "The fake bus places genuine NameOwnerChanged signals, matching signals from three senders, forged ownership claims and unrelated traffic before and after the owner-lookup reply and in later rounds. The yielded sequence must contain exactly the signals whose sender owned the name at their wire position (signals sent while the stream was being created may be missing), in order.",
            "The bus timeline is conformant (the lookup reply carries the owner at its wire position); only timing and third-party traffic are adversarial.",
            "DESIGN.md §3 C32"),
    "C36": ("exploration",
            "deterministic simulation: RequestName/ReleaseName histories against a conformant fake bus with seeded reply delays, genuine and forged ownership signals, direct RequestName calls, cancelled requests; name-status reference model",
            "A real bus-mode connection (handshake + Hello) runs histories (half drawn blindly, half guided by a simulation of the bus) of request/release, direct RequestName calls that bypass the bookkeeping (so the bus itself answers AlreadyOwner later), requests after which the owner releases the name at that very instant (NameAcquired right behind the InQueue reply), and requests/releases cancelled at a seeded await point, interleaved with bus-side events (another connection owning, releasing, taking over names; forged NameAcquired/NameLost from a peer). After each step the observable behaviour (local AlreadyOwner/InQueue answers without bus traffic vs. exactly one RequestName on the bus; release true iff held or queued) must equal the {none, owner, queued} model.",
            "One operation at a time with quiescence in between; the fake bus follows the specification's name-queue rules.",
            "DESIGN.md §3 C36"),
    "C37": ("exploration",
            "deterministic simulation: stream / proxy / signal-stream create-drop histories (concurrent pairs, cancelled creations and drops) against a fake bus that records AddMatch / RemoveMatch",
            "Batches of one or two concurrent operations create and drop MessageStreams over overlapping rules, proxies and proxy signal streams (sync and async drops); in a third of the runs one bus-talking operation is cancelled at a seeded await point, and now and then the bus refuses an AddMatch (that creation must fail and leave nothing behind). After every batch the rules registered on the fake bus must equal the distinct signal rules with a live subscriber, each exactly once, with no duplicate AddMatch and no RemoveMatch of an unregistered rule.",
            "Expected rule strings are produced with zbus's own MatchRule formatter (string identity is all that matters here).",
            "DESIGN.md §3 C37"),
    "C39": ("exploration",
            "deterministic simulation: seeded sets of connection handles dropped in seeded orders (with graceful_shutdown) while slow handlers are in flight; peer-observed EOF compared with handle lifetime",
            "Side A holds clones, streams, proxies (with and without a property-cache task), a signal stream and an InterfaceRef plus in-flight handlers sleeping on the simulated clock; the director drops them in a seeded order with a seeded number of scheduler steps in between. The raw peer must see EOF by quiescence iff every handle is gone, never earlier, after the replies of all started handlers; every graceful_shutdown (one, or one per clone that goes, so that several are pending) must complete iff everything else is gone and write nothing afterwards; creations of handles cancelled midway must leave nothing behind.",
            "The simulated socket closes when both halves are dropped (as the real Arc-shared socket does).",
            "DESIGN.md §3 C39"),
    "C30": ("exploration",
            "deterministic simulation: handlers that re-enter the object server, and calls issued at the earliest step after on-demand server creation; deadlock = quiescence with an unanswered call (no watchdog)",
            "Method handlers, a property getter and a property setter that register/remove objects (including their own interface), emit signals, close or detach the connection are driven by 1..2 real client tasks; in the lazy variant the clients start exactly when object_server().at() has returned (single scheduler steps). The simulated world is closed, so a deadlock or a lost subscription is decided exactly as quiescence with an open call.",
            "No timeouts configured; interleavings at task-poll granularity.",
            "DESIGN.md §3 C30"),
    "C24": ("exploration",
            "deterministic simulation: concurrent at/remove/interface histories from local tasks plus remote calls and introspection from a second real connection; brute-force linearizability check against a set-of-registrations model",
            "Local tasks mutate the object tree over 5 nested paths x 3 interface types while a real client connection calls and introspects; every result (booleans, InterfaceNotFound, per-registration tokens, UnknownObject/UnknownInterface, introspected interface sets, mandatory child nodes) must admit a linearization (operations stamped with the global scheduler step). Thorough also enumerates all sequential histories of <= 3 mutating operations followed by a full sweep of lookups.",
            "Histories are short (<= 14 operations) to keep the checker exact; the destroyed flag, the UnknownObject/UnknownInterface distinction and extra empty child nodes are not judged.",
            "DESIGN.md §3 C24"),
    "C26": ("exploration",
            "deterministic simulation: seeded call mixes (valid, wrong path/interface/member/arguments, no-reply) in flight against the real object server and macro-generated handlers; replies decoded independently and compared with a table model",
            "A raw peer keeps several calls in flight against the hand-written corpus interface registered at two paths and against 16 generated interfaces (about 56 methods whose signatures were drawn from the type grammar by tools/gen_corpus.py; handlers log a canonical rendering of the arguments they received, compared with the oracle's rendering of what was sent; one run in 30 is a flood of 70..110 calls; one run in eight ends with a &mut self handler that only returns once a later call to another interface has run) (sync/async, &self/&mut self, fallible and custom-error handlers, handlers sleeping on the simulated clock). The handler log must equal exactly the matching calls, and each call must get exactly one reply with the right serial, signature and value or the right standard error.",
            "The generated corpus is fixed per build (macros expand at compile time), not per run; the no-reply flag on error paths and an extra argument to a zero-argument method are judged leniently.",
            "DESIGN.md §3 C26"),
    "C29": ("exploration",
            "deterministic simulation: bursts of calls to spawn=false handlers that yield or sleep on the simulated clock, under seeded scheduling",
            "Bursts of calls to a spawn = false interface (handlers returning, yielding, sleeping simulated microseconds; &self and &mut self) mixed with calls to a spawning interface, with and without NO_REPLY_EXPECTED; and with Properties.Set calls on a property of the no-spawn interface whose &mut self setter takes a while; one run in 25 is a flood of 70..140 calls, more than the dispatch queue holds. The start/end log of the no-spawn handlers must show no overlap and wire order; every call must be answered exactly once by quiescence.",
            "Wire order = the order the raw peer wrote the calls in.",
            "DESIGN.md §3 C29"),
    "C15": ("exploration",
            "deterministic simulation of real threads: baton scheduler with a scheduling point at every operation of the instrumented serial counter; wrap boundary preset through the zbus_verif hook",
            "2..4 real threads build messages while a seeded scheduler decides, at every atomic operation on the process-wide serial counter, which thread proceeds; the counter is preset around 0 and u32::MAX. All serials must be non-zero and distinct. The interleaving space of such short programs is small (thousands), so a few thousand seeded runs cover a large part of it, but it is sampled, not enumerated.",
            "Sequentially consistent interleavings of whole atomic operations only.",
            "DESIGN.md §3 C15"),
    "C20": ("exploration",
            "deterministic simulation: stream create/drop histories in quiescence-separated rounds vs. message bursts, tiny queues, slow consumers, seeded fan-out order",
            "Rounds of stream creation/drop (Drop and async_drop, equal and different rules, capacities 1..4, slow and fast consumers) and bursts from a scripted peer, with further create/drop racing the burst; per stream the yielded sequence must contain every matching message of the rounds it was subscribed throughout, only matching messages of rounds it touched, no duplicates, arrival order.",
            "Races exactly at a subscription edge are tolerated (MAY window), not judged.",
            "DESIGN.md §3 C20"),
    "C13": ("exploration",
            "deterministic simulation: unknown field codes / flag bits / type codes injected into a live stream with a pending call, seeded splits and schedules; thorough enumerates all 2467 variants",
            "A scripted peer places one message with an unknown header field (code 10..255 x 8 value types), unknown flag bits or an unknown type code between normal traffic while a method call is pending and another is made afterwards; the stream must yield the neighbours (and the message itself unless its type is unknown) intact, report only known flags, yield no error and both calls must succeed.",
            "One unknown element per message; combinations of several unknown elements in one message are not generated.",
            "DESIGN.md §3 C13"),
    "C38": ("fault_enumeration",
            "deterministic simulation with exhaustive fault placement: EOF / half-close EOF / ECONNRESET at every inbound byte offset and EPIPE at every early write call, plus Connection::close() by the application at every message count, of scripted sessions, several seeded schedules each",
            "For two fixed sessions (pending calls, unfiltered + rule stream, object server, then a late call and subscription) every inbound byte offset x {EOF whole socket, EOF inbound half, ECONNRESET} and the first 6 write calls x EPIPE and close() after n = 0..len messages are enumerated under 4 seeded schedule/read-split profiles each (a quarter of them with a rule stream whose queue is exactly full at the failure and a late consumer); thorough adds seeded random sessions. Oracle: streams yield exactly what was completely received before the failure, optionally one error, then end; pending calls complete accordingly; later work fails; quiescence with an open obligation is a hang.",
            "Fault positions are exhaustive for the fixed sessions; schedules per position are sampled.",
            "DESIGN.md §3 C38"),
    "C18": ("exploration",
            "deterministic simulation: concurrent sender tasks under a seeded scheduler over a transport with partial writes, stalls, back-pressure, write errors and task cancellation; captured stream checked by an independent framer",
            "2..6 sender tasks using every send API race for the write half while the simulated transport accepts partial writes, returns Pending between the pieces of one message, applies back-pressure and (separately) fails a write or cancels a sender task at a seeded await point; the captured byte/fd stream must parse into exactly the sent messages, whole, fds at frame starts, per-sender order kept.",
            "Interleaving granularity is the task poll plus the transport's own Pending points (incl. a seeded Pending right after a successful write); preemption inside async-lock is not explored.",
            "DESIGN.md §3 C18"),
    "C19": ("exploration",
            "deterministic simulation: concurrent callers vs. a scripted peer that reorders, delays, duplicates and forges replies; EOF/reset/crash faults, caller cancellation; timeouts on the discrete-event clock",
            "1..5 caller tasks (sometimes 9..14, more than the method-return channel holds) x 1..3 calls against a raw peer deciding per call return/error/never, delay, duplicates, stray replies and noise, with optional method timeout (simulated clock) and link faults at byte offsets / peer crash at a time / a caller task cancelled at a seeded await point; per call the oracle demands its own token back, or an error exactly when faults or timeouts justify one, and nothing pending at quiescence once the link died.",
            "A reply that arrives 'before the caller waits' is produced by the seeded Pending-after-write transport behaviour and by task stalls, not by true parallelism.",
            "DESIGN.md §3 C19"),
    "C16": ("exploration",
            "deterministic simulation: seeded + enumerated client transcripts x read splits against a SASL server reference model",
            "Client transcripts (random walks and, in the thorough tier, every sequence of <= 3 lines over a 22-symbol alphabet) x credentials x mechanism x read splits run against the real server handshake; replies and the authentication outcome are compared in lock-step with a reference server written from the spec's state table. Sampling plus bounded enumeration; no proof.",
            "Where the spec and the property text differ or are silent the model accepts each documented alternative (listed in the scenario's assumptions).",
            "DESIGN.md §3 C16"),
    "C17": ("exploration",
            "deterministic simulation: seeded + enumerated server reply sequences x read splits against a reference client",
            "Server reply sequences (random and, thorough, every sequence of <= 2 lines over an 18-symbol alphabet) x expected GUID none/equal/different x fd capability x FLATPAK_ID x trailing messages with fds x read splits against the real client handshake; success, reported GUID, fd capability and the fate of trailing bytes are compared with a reference client.",
            "Expected-GUID cases go through the zbus_verif client_handshake hook (the public API accepts an expected GUID only inside an address).",
            "DESIGN.md §3 C17"),
    "C14": ("exploration",
            "deterministic simulation: seeded read-split/latency/schedule search over a simulated socket, independent frame oracle",
            "Seeded search over roles (client, server, pre-authenticated, bus client) x message sequences (incl. unknown-type messages that carry fds and must vanish with them) x read splits (incl. enumerated cut points) x handshake leftovers x fd placement (Linux SCM segment rule, or a liberal transport merging fd segments) x schedules; every yielded message is compared byte-for-byte (and fd-for-fd) with what an independent marshaller sent. Sampling, not proof: a clean batch is evidence.",
            "Trusts the simulated socket to follow Linux unix-stream recvmsg semantics (checked against a real socketpair once), the scheduler hook, and the harness's own marshaller.",
            "DESIGN.md §3 C14"),
}

PURE = "pure function of its input (no schedule, clock, fault, interleaving or second party): deterministic simulation with fault injection has nothing to decide; see DESIGN.md §6"
NOT_APPLICABLE = {
    "C01": PURE, "C02": PURE, "C03": PURE, "C04": PURE, "C05": PURE, "C06": PURE, "C07": PURE,
    "C08": PURE, "C09": "compile-time programs plus pure functions; " + PURE, "C10": PURE, "C11": PURE,
    "C21": PURE, "C22": PURE, "C23": PURE,
    "C27": "pure function of the interface definition; the stateful part (which interfaces/children are listed after a history) is covered under C24; " + PURE,
    "C34": PURE,
    "C35": "a build matrix, not a runtime behaviour: nothing to schedule or inject faults into",
}
NOT_YET = "claimed in DESIGN.md but its simulation scenario is not built yet in this commit; listed here so the manifest never claims a check that does not exist"

def main():
    props = [json.loads(l) for l in open(os.path.join(VERIF, "properties.jsonl"))]
    ids = [p["id"] for p in props]
    checks = []
    for pid in ids:
        if pid in CLAIMED:
            level, tech, text, note, ref = CLAIMED[pid]
            checks.append({
                "property_id": pid,
                "quick_cmd": f"./check {pid} quick",
                "thorough_cmd": f"./check {pid} thorough",
                "evidence_file": f"/verif/evidence/{pid}.json",
                "replay_cmd_template": "./check replay {path}",
                "engine": "zsim",
                "level_claimed": {"category": level, "text": text, "design_ref": ref},
                "level_note": note,
                "technique": tech,
            })
    na = []
    for pid in ids:
        if pid in CLAIMED:
            continue
        na.append({"property_id": pid, "reason": NOT_APPLICABLE.get(pid, NOT_YET)})
    hooks = subprocess.run(["git", "-C", "/repo", "log", "--format=%H %s", "--grep=^verif hook"],
                           capture_output=True, text=True).stdout.strip().splitlines()
    manifest = {
        "version": 1,
        "setup_cmd": "./check build",
        "hooks": {
            "guard": "cfg(zbus_verif)",
            "enable": "RUSTFLAGS=\"--cfg zbus_verif --check-cfg cfg(zbus_verif)\" (set in /verif/sim/.cargo/config.toml; the simulator crate depends on /repo/zbus by path, so every check rebuilds zbus from the working tree with the hooks on)",
            "baseline_off_cmd": "cd /repo && cargo nextest run --workspace --no-fail-fast --test-threads 8 --offline || cargo test --workspace --no-fail-fast --offline",
            "source_commits": [h.split()[0] for h in hooks],
            "add_only": False,
        },
        "engines": [{
            "name": "zsim",
            "path": "/verif/sim",
            "serves_properties": sorted(CLAIMED),
            "kind_free_text": "single-process deterministic simulator: seeded scheduler owning every zbus task (executor hook) and baton threads, discrete-event clock (timeout hook + clock_gettime override), simulated stream sockets with fault plans on zbus's Socket seam, scripted raw peers / fake bus / second real connection, reference-model oracles, shrinking and exact replay",
        }],
        "checks": checks,
        "not_applicable": na,
        "notes": "add_only is false because zbus/src/message/header.rs splits one `use` line into cfg'd variants (instrumented AtomicU32), zbus/src/abstractions/async_lock.rs does the same for the lock re-export (wrappers with a scheduling point) and Cargo.toml's check-cfg list gained 'cfg(zbus_verif)'; all other hook changes are additions. Exit codes: 0 held, 1 VIOLATION, 2 harness error.",
    }
    with open(os.path.join(VERIF, "MANIFEST.json"), "w") as f:
        json.dump(manifest, f, indent=1)
        f.write("\n")
    print(f"{len(checks)} checks, {len(na)} not claimed")

if __name__ == "__main__":
    main()
