//! Run / shrink / replay / evidence machinery shared by all scenarios.
use std::{
    collections::{BTreeMap, HashSet},
    io::Write,
    path::{Path, PathBuf},
    sync::Arc,
};

use serde::{Deserialize, Serialize};
use serde_json::{json, Value};

use crate::{
    kernel::{Decisions, RunRecord, SchedCfg, Stop, World},
    rng::{mix64, Rng},
    sys,
};

#[derive(Clone, Copy, Debug, PartialEq, Eq)]
pub enum Tier {
    Quick,
    Thorough,
}

impl Tier {
    pub fn name(self) -> &'static str {
        match self {
            Tier::Quick => "quick",
            Tier::Thorough => "thorough",
        }
    }
}

#[derive(Clone, Debug, Serialize, Deserialize, PartialEq)]
pub struct Violation {
    /// Oracle rule id, e.g. "order", "panic".
    pub rule: String,
    /// Discriminator that, with the rule, identifies this *kind* of failure.
    pub disc: String,
    /// Human-readable detail (not part of the fingerprint).
    pub detail: String,
}

#[derive(Clone, Debug, Default)]
pub struct Verdict {
    pub violation: Option<Violation>,
    pub nontrivial: bool,
    /// The run could not be judged (harness problem): exit 2, never a violation.
    pub harness_error: Option<String>,
    /// cut off by the step cap: neither held nor violated
    pub inconclusive: bool,
}

impl Verdict {
    pub fn ok(nontrivial: bool) -> Verdict {
        Verdict { violation: None, nontrivial, harness_error: None, inconclusive: false }
    }
    pub fn fail(rule: &str, disc: impl Into<String>, detail: impl Into<String>) -> Verdict {
        Verdict {
            violation: Some(Violation { rule: rule.into(), disc: disc.into(), detail: detail.into() }),
            nontrivial: true,
            harness_error: None,
            inconclusive: false,
        }
    }
    pub fn harness(msg: impl Into<String>) -> Verdict {
        Verdict { violation: None, nontrivial: false, harness_error: Some(msg.into()), inconclusive: false }
    }
}

#[derive(Clone, Debug, Serialize, Deserialize, PartialEq)]
pub struct Plan {
    pub scenario: String,
    pub sched: SchedCfg,
    pub body: Value,
}

pub trait Scenario: Sync + Send {
    fn id(&self) -> &'static str;
    fn level(&self) -> &'static str {
        "exploration"
    }
    /// How cases are generated and what makes one non-trivial.
    fn rule(&self) -> &'static str;
    fn runs(&self, tier: Tier) -> u64;
    /// Generate the `idx`-th plan of a batch with batch seed `seed`.
    fn generate(&self, rng: &mut Rng, idx: u64, tier: Tier) -> (SchedCfg, Value);
    /// Execute one plan inside an installed world and judge it.
    fn run(&self, w: &World, body: &Value) -> Verdict;
    /// Simpler variants of `body` to try while shrinking.
    fn shrink(&self, _body: &Value) -> Vec<Value> {
        vec![]
    }
    fn real(&self) -> Vec<&'static str>;
    fn stubbed(&self) -> Vec<&'static str>;
    fn assumptions(&self) -> Vec<&'static str> {
        vec![]
    }
    /// Whether a panic in any task is a violation of this property by itself (always reported;
    /// this only names the rule).
    fn extra_env(&self, _body: &Value) -> Vec<(String, Option<String>)> {
        vec![]
    }
}

pub struct Outcome {
    pub verdict: Verdict,
    pub record: RunRecord,
    pub stop: Stop,
}

pub fn fingerprint(id: &str, v: &Violation) -> String {
    format!("{id}/{}/{}", v.rule, v.disc)
}

/// Execute one plan on a fresh thread (fresh `RandomState` keys, fresh thread-locals).
pub fn exec(scn: &'static dyn Scenario, plan: &Plan, record: bool) -> Outcome {
    let plan = plan.clone();
    let h = std::thread::Builder::new()
        .name("sim-run".into())
        .stack_size(16 << 20)
        .spawn(move || {
            for (k, v) in scn.extra_env(&plan.body) {
                match v {
                    Some(v) => std::env::set_var(k, v),
                    None => std::env::remove_var(k),
                }
            }
            let w = World::new(&plan.sched, record);
            w.install(plan.sched.hash_seed);
            zbus::verif::set_serial(1);
            let mut verdict = scn.run(&w, &plan.body);
            // Whatever the scenario left behind is cancelled here.
            w.drain();
            w.join_threads();
            World::uninstall();
            let rec = w.finish();
            let stop = if rec.steps >= plan.sched.step_cap { Stop::StepCap } else { Stop::Quiescent };
            // a panic in any task is the root cause of whatever else went wrong
            if let Some(p) = rec.panics.first() {
                verdict = Verdict::fail("panic", panic_disc(p), p.clone());
            }
            // A run cut off by the step cap was not judged at quiescence: whatever the scenario concluded from the
            // state it found (a missing reply, an incomplete frame) is not a verdict.  Such runs are counted as
            // inconclusive; a panic stands.
            if stop == Stop::StepCap && rec.panics.is_empty() {
                verdict = Verdict::ok(false);
                verdict.inconclusive = true;
            }
            Outcome { verdict, record: rec, stop }
        })
        .expect("spawn run thread");
    h.join().expect("run thread panicked outside the simulation")
}

/// Discriminator of a panic: its location and the first words of the message, without numbers.
pub fn panic_disc(p: &str) -> String {
    let (msg, loc) = match p.rfind(" @ ") {
        Some(i) => (&p[..i], p[i + 3..].split(' ').next().unwrap_or("")),
        None => (p, ""),
    };
    let loc = loc.rsplit('/').next().unwrap_or(loc);
    let words: String = msg
        .chars()
        .map(|c| if c.is_ascii_alphabetic() || c == ' ' { c } else { ' ' })
        .collect::<String>()
        .split_whitespace()
        .take(6)
        .collect::<Vec<_>>()
        .join("-");
    format!("{loc}:{words}")
}

pub fn plan_hash(plan: &Plan) -> u64 {
    let s = serde_json::to_string(plan).unwrap();
    let mut h = crate::rng::Fnv::default();
    h.write(s.as_bytes());
    h.0
}

#[derive(Clone, Debug, Serialize, Deserialize)]
pub struct ReplayFile {
    pub property: String,
    pub fingerprint: String,
    pub detail: String,
    pub log_hash: u64,
    pub plan: Plan,
    pub log: Vec<String>,
    #[serde(default)]
    pub original_seed: Option<(u64, u64)>,
}

/// Freeze the decisions actually taken, then minimise while the fingerprint persists.
pub fn shrink(scn: &'static dyn Scenario, plan: &Plan, fp: &str, budget: usize) -> (Plan, Outcome) {
    let same = |o: &Outcome| o.verdict.violation.as_ref().map(|v| fingerprint(scn.id(), v) == fp).unwrap_or(false);
    let first = exec(scn, plan, false);
    let mut best = plan.clone();
    // 1. freeze schedule
    let mut frozen = plan.clone();
    frozen.sched.decisions = Decisions::Explicit(first.record.decisions.clone());
    frozen.sched.stall = None;
    let o = exec(scn, &frozen, false);
    let mut tries = 2;
    if same(&o) {
        best = frozen;
    } else {
        // cannot freeze (should not happen): keep the seeded plan
        let o = exec(scn, &best, true);
        return (best, o);
    }
    // 2. body candidates
    let mut progress = true;
    while progress && tries < budget {
        progress = false;
        for cand in scn.shrink(&best.body) {
            if tries >= budget {
                break;
            }
            let mut p = best.clone();
            p.body = cand;
            tries += 1;
            let o = exec(scn, &p, false);
            if same(&o) {
                // re-freeze to the decisions this run actually consumed
                p.sched.decisions = Decisions::Explicit(o.record.decisions.clone());
                best = p;
                progress = true;
                break;
            }
        }
    }
    // 3. schedule: truncate, then zero blocks
    let get = |p: &Plan| match &p.sched.decisions {
        Decisions::Explicit(v) => v.clone(),
        _ => vec![],
    };
    let mut d = get(&best);
    let mut cut = d.len();
    while cut > 0 && tries < budget {
        let keep = cut / 2;
        let mut p = best.clone();
        p.sched.decisions = Decisions::Explicit(d[..keep].to_vec());
        tries += 1;
        if same(&exec(scn, &p, false)) {
            d.truncate(keep);
            best = p;
            cut = keep;
        } else {
            break;
        }
    }
    let mut block = (d.len() / 2).max(1);
    while block >= 1 && tries < budget && !d.is_empty() {
        let mut i = 0;
        while i < d.len() && tries < budget {
            let end = (i + block).min(d.len());
            if d[i..end].iter().any(|x| *x != 0) {
                let mut d2 = d.clone();
                for x in &mut d2[i..end] {
                    *x = 0;
                }
                let mut p = best.clone();
                p.sched.decisions = Decisions::Explicit(d2.clone());
                tries += 1;
                if same(&exec(scn, &p, false)) {
                    d = d2;
                    best = p;
                }
            }
            i = end;
        }
        if block == 1 {
            break;
        }
        block /= 2;
    }
    while d.last() == Some(&0) {
        d.pop();
    }
    let mut p = best.clone();
    p.sched.decisions = Decisions::Explicit(d);
    if same(&exec(scn, &p, false)) {
        best = p;
    }
    if best.sched.hash_seed != 0 {
        let mut p = best.clone();
        p.sched.hash_seed = 0;
        if same(&exec(scn, &p, false)) {
            best = p;
        }
    }
    if best.sched.lock_yield != 0 {
        let mut p = best.clone();
        p.sched.lock_yield = 0;
        if same(&exec(scn, &p, false)) {
            best = p;
        }
    }
    let o = exec(scn, &best, true);
    (best, o)
}

pub fn write_replay(dir: &Path, scn: &dyn Scenario, plan: &Plan, o: &Outcome, orig: Option<(u64, u64)>) -> PathBuf {
    std::fs::create_dir_all(dir).ok();
    let v = o.verdict.violation.as_ref().expect("violation");
    let fp = fingerprint(scn.id(), v);
    let rf = ReplayFile {
        property: scn.id().into(),
        fingerprint: fp.clone(),
        detail: v.detail.clone(),
        log_hash: o.record.log_hash,
        plan: plan.clone(),
        log: o.record.log.clone(),
        original_seed: orig,
    };
    let h = plan_hash(plan);
    let path = dir.join(format!("{}-{:016x}.json", scn.id(), h));
    std::fs::write(&path, serde_json::to_string_pretty(&rf).unwrap()).expect("write replay");
    path
}

#[derive(Clone, Debug, Serialize, Deserialize)]
pub struct KnownFinding {
    pub property: String,
    pub fingerprint: String,
    pub status: String,
    #[serde(default)]
    pub commit: Option<String>,
    pub what: String,
    #[serde(default)]
    pub replay: Option<String>,
}

pub fn load_known(verif: &Path) -> Vec<KnownFinding> {
    let p = verif.join("known_findings.json");
    match std::fs::read_to_string(&p) {
        Ok(s) => serde_json::from_str(&s).unwrap_or_else(|e| {
            eprintln!("cannot parse {}: {e}", p.display());
            std::process::exit(2);
        }),
        Err(_) => vec![],
    }
}

#[derive(Clone, Debug, Default, Serialize, Deserialize)]
pub struct WorkerSummary {
    pub evaluations: u64,
    pub nontrivial: u64,
    pub steps: u64,
    pub sim_ns: u64,
    pub counters: BTreeMap<String, u64>,
    pub strategies: BTreeMap<String, u64>,
    pub samples: Vec<Value>,
    pub violation: Option<(String, String, String)>,
    pub known_hits: BTreeMap<String, u64>,
    pub harness_errors: Vec<String>,
    #[serde(default)]
    pub inconclusive: u64,
    pub hashes_file: Option<String>,
    pub trace_hashes: u64,
}

pub fn run_seed(batch_seed: u64, idx: u64) -> u64 {
    mix64(batch_seed.wrapping_mul(0x1_0000_0000).wrapping_add(idx))
}

pub fn make_plan(scn: &dyn Scenario, batch_seed: u64, idx: u64, tier: Tier) -> Plan {
    let mut rng = Rng::new(run_seed(batch_seed, idx));
    let (sched, body) = scn.generate(&mut rng, idx, tier);
    Plan { scenario: scn.id().into(), sched, body }
}

/// Run `count` plans starting at `start`; stop at the first new violation.
pub fn worker(
    scn: &'static dyn Scenario,
    verif: &Path,
    tier: Tier,
    seed: u64,
    start: u64,
    count: u64,
    stride: u64,
    out: &Path,
) {
    let known = load_known(verif);
    let known_fps: HashSet<String> = known
        .iter()
        .filter(|k| k.property == scn.id() && k.status == "known")
        .map(|k| k.fingerprint.clone())
        .collect();
    let mut sum = WorkerSummary::default();
    let mut hashes: Vec<u64> = vec![];
    let mut traces: HashSet<u64> = HashSet::new();
    let deadline = std::env::var("VERIF_WALL_S").ok().and_then(|s| s.parse::<f64>().ok());
    let t0 = sys::real_now_s();
    for k in 0..count {
        let idx = start + k * stride;
        if let Some(d) = deadline {
            if sys::real_now_s() - t0 > d {
                break;
            }
        }
        let plan = make_plan(scn, seed, idx, tier);
        let want_sample = sum.samples.len() < 2;
        let o = exec(scn, &plan, want_sample);
        sum.evaluations += 1;
        sum.steps += o.record.steps;
        sum.sim_ns += o.record.sim_ns;
        for (k, v) in &o.record.counters {
            *sum.counters.entry(k.to_string()).or_insert(0) += v;
        }
        let strat = match &plan.sched.strategy {
            crate::kernel::Strategy::Uniform => "uniform",
            crate::kernel::Strategy::Sticky { .. } => "sticky",
            crate::kernel::Strategy::Pct { .. } => "pct",
        };
        *sum.strategies.entry(strat.to_string()).or_insert(0) += 1;
        if plan.sched.stall.is_some() {
            *sum.strategies.entry("with_stall_window".to_string()).or_insert(0) += 1;
        }
        traces.insert(o.record.log_hash);
        if o.verdict.inconclusive {
            sum.inconclusive += 1;
            continue;
        }
        if let Some(e) = &o.verdict.harness_error {
            if sum.harness_errors.len() < 5 {
                sum.harness_errors.push(format!("idx {idx}: {e}"));
            }
            continue;
        }
        if o.verdict.nontrivial {
            sum.nontrivial += 1;
            hashes.push(plan_hash(&plan) ^ o.record.log_hash.rotate_left(17));
            if want_sample {
                let mut log = o.record.log.clone();
                if log.len() > 60 {
                    let n = log.len();
                    log.truncate(60);
                    log.push(format!("... ({} more lines)", n - 60));
                }
                sum.samples.push(json!({"run_index": idx, "plan": plan, "event_log": log}));
            }
        }
        if let Some(v) = &o.verdict.violation {
            let fp = fingerprint(scn.id(), v);
            if known_fps.contains(&fp) {
                *sum.known_hits.entry(fp).or_insert(0) += 1;
                continue;
            }
            let (small, so) = shrink(scn, &plan, &fp, 400);
            let path = write_replay(&verif.join("replays"), scn, &small, &so, Some((seed, idx)));
            sum.violation = Some((fp, path.display().to_string(), v.detail.clone()));
            break;
        }
    }
    sum.trace_hashes = traces.len() as u64;
    let hf = out.with_extension("hashes");
    let mut f = std::fs::File::create(&hf).expect("hash file");
    for h in &hashes {
        f.write_all(&h.to_le_bytes()).unwrap();
    }
    sum.hashes_file = Some(hf.display().to_string());
    std::fs::write(out, serde_json::to_string(&sum).unwrap()).expect("write summary");
}

pub struct BatchResult {
    pub exit: i32,
}

/// Parent: replay known findings, fork workers, aggregate, write evidence.
pub fn run_batch(scn: &'static dyn Scenario, verif: &Path, tier: Tier, seed: u64, nworkers: usize) -> BatchResult {
    let t0 = sys::real_now_s();
    let id = scn.id();
    let mut exit = 0;
    let mut violations = 0;
    let mut notes: Vec<String> = vec![];
    // 1. committed findings first
    let known = load_known(verif);
    let mut known_report = vec![];
    for k in known.iter().filter(|k| k.property == id) {
        let Some(rp) = &k.replay else { continue };
        let path = verif.join(rp);
        let rf: ReplayFile = match std::fs::read_to_string(&path).ok().and_then(|s| serde_json::from_str(&s).ok()) {
            Some(r) => r,
            None => {
                eprintln!("harness error: cannot read replay {}", path.display());
                return BatchResult { exit: 2 };
            }
        };
        let o = exec(scn, &rf.plan, false);
        let reproduces = o.verdict.violation.as_ref().map(|v| fingerprint(id, v) == k.fingerprint).unwrap_or(false);
        match (k.status.as_str(), reproduces) {
            ("known", true) => {
                println!("KNOWN-FINDING: property={id} {} [{}]", k.what, k.fingerprint);
                known_report.push(json!({"fingerprint": k.fingerprint, "status": "known", "reproduces": true}));
            }
            ("known", false) => {
                notes.push(format!("known finding {} no longer reproduces", k.fingerprint));
                known_report.push(json!({"fingerprint": k.fingerprint, "status": "known", "reproduces": false}));
            }
            ("fixed", true) => {
                println!("VIOLATION property={id} replay={}", path.display());
                println!("  fixed finding {} is back: {}", k.fingerprint, k.what);
                violations += 1;
                exit = 1;
            }
            _ => {
                known_report.push(json!({"fingerprint": k.fingerprint, "status": k.status, "reproduces": false}));
            }
        }
    }
    // 2. seeded search
    let total = std::env::var("VERIF_RUNS").ok().and_then(|s| s.parse().ok()).unwrap_or_else(|| scn.runs(tier));
    let nworkers = nworkers.max(1).min(total.max(1) as usize);
    let tmp = verif.join("target").join("tmp");
    std::fs::create_dir_all(&tmp).ok();
    let exe = std::env::current_exe().expect("current exe");
    let mut children = vec![];
    for wi in 0..nworkers {
        let count = (total + nworkers as u64 - 1 - wi as u64) / nworkers as u64;
        let out = tmp.join(format!("{id}-{}-{wi}.json", std::process::id()));
        let child = std::process::Command::new(&exe)
            .arg("worker")
            .arg(id)
            .arg(tier.name())
            .arg(seed.to_string())
            .arg(wi.to_string())
            .arg(count.to_string())
            .arg(nworkers.to_string())
            .arg(&out)
            .env("VERIF_DIR", verif)
            .spawn()
            .expect("spawn worker");
        children.push((child, out));
    }
    let mut agg = WorkerSummary::default();
    let mut all_hashes: HashSet<u64> = HashSet::new();
    let mut seen_fps: HashSet<String> = HashSet::new();
    for (mut child, out) in children {
        let st = child.wait().expect("wait worker");
        if !st.success() {
            eprintln!("harness error: worker exited with {st}");
            exit = 2;
            continue;
        }
        let s: WorkerSummary = match std::fs::read_to_string(&out).ok().and_then(|s| serde_json::from_str(&s).ok()) {
            Some(s) => s,
            None => {
                eprintln!("harness error: worker summary missing");
                exit = 2;
                continue;
            }
        };
        let _ = std::fs::remove_file(&out);
        if let Some(hf) = &s.hashes_file {
            if let Ok(b) = std::fs::read(hf) {
                for c in b.chunks_exact(8) {
                    all_hashes.insert(u64::from_le_bytes(c.try_into().unwrap()));
                }
            }
            let _ = std::fs::remove_file(hf);
        }
        agg.evaluations += s.evaluations;
        agg.nontrivial += s.nontrivial;
        agg.steps += s.steps;
        agg.sim_ns += s.sim_ns;
        agg.trace_hashes += s.trace_hashes;
        for (k, v) in s.counters {
            *agg.counters.entry(k).or_insert(0) += v;
        }
        for (k, v) in s.strategies {
            *agg.strategies.entry(k).or_insert(0) += v;
        }
        for (k, v) in s.known_hits {
            *agg.known_hits.entry(k).or_insert(0) += v;
        }
        if agg.samples.len() < 3 {
            agg.samples.extend(s.samples.into_iter().take(3 - agg.samples.len()));
        }
        agg.harness_errors.extend(s.harness_errors);
        agg.inconclusive += s.inconclusive;
        if let Some((fp, path, detail)) = s.violation {
            violations += 1;
            if seen_fps.insert(fp.clone()) {
                println!("VIOLATION property={id} replay={path}");
                println!("  {fp}: {detail}");
            }
            if exit == 0 {
                exit = 1;
            }
        }
    }
    // a handful of runs out of a million exhausting the step budget is the budget's business; many is the harness's
    if agg.inconclusive * 500 > agg.evaluations.max(1) {
        agg.harness_errors.push(format!("{} of {} runs hit the step cap (inconclusive)", agg.inconclusive, agg.evaluations));
    }
    if !agg.harness_errors.is_empty() {
        for e in agg.harness_errors.iter().take(5) {
            eprintln!("harness error: {e}");
        }
        if exit == 0 {
            exit = 2;
        }
    }
    let wall = sys::real_now_s() - t0;
    let faults: BTreeMap<String, u64> =
        agg.counters.iter().filter(|(k, _)| k.starts_with("fault.")).map(|(k, v)| (k[6..].to_string(), *v)).collect();
    let probes: BTreeMap<String, u64> =
        agg.counters.iter().filter(|(k, _)| !k.starts_with("fault.")).map(|(k, v)| (k.clone(), *v)).collect();
    let ev = json!({
        "property_id": id,
        "tier": tier.name(),
        "seed": seed,
        "level": scn.level(),
        "coverage": {
            "evaluations": agg.evaluations,
            "distinct_nontrivial": all_hashes.len(),
            "nontrivial_runs": agg.nontrivial,
            "inconclusive_runs_step_cap": agg.inconclusive,
            "rule": scn.rule(),
            "distinct_measure": "distinct (plan hash, event-log hash) pairs among runs satisfying the non-trivial rule; the event-log hash covers every scheduling decision, transport event and oracle event of the run",
            "samples": agg.samples,
            "simulated_runs": agg.evaluations,
            "runs_per_hour": if wall > 0.0 { (agg.evaluations as f64 / wall * 3600.0) as u64 } else { 0 },
            "scheduler_steps": agg.steps,
            "simulated_time_s": agg.sim_ns as f64 * 1e-9,
            "distinct_schedule_traces_per_worker_sum": agg.trace_hashes,
            "faults_fired": faults,
            "probes": probes,
            "scheduler_strategy_mix": agg.strategies,
            "workers": nworkers,
            "known_findings": known_report,
            "known_finding_hits_in_search": agg.known_hits,
            "components_real": scn.real(),
            "components_stubbed": scn.stubbed(),
            "notes": notes,
        },
        "assumptions": scn.assumptions(),
        "wall_s": wall,
        "violations": violations,
    });
    let evdir = verif.join("evidence");
    std::fs::create_dir_all(&evdir).ok();
    if exit != 2 {
        std::fs::write(evdir.join(format!("{id}.json")), serde_json::to_string_pretty(&ev).unwrap()).expect("write evidence");
    }
    println!(
        "{id} {}: {} runs, {} distinct non-trivial, {} steps, {:.1} s simulated, {:.1} s wall, {} violation(s)",
        tier.name(),
        agg.evaluations,
        all_hashes.len(),
        agg.steps,
        agg.sim_ns as f64 * 1e-9,
        wall,
        violations
    );
    BatchResult { exit }
}

/// Replay a file in this (fresh) process; it must reproduce fingerprint and log hash.
pub fn replay(scn: &'static dyn Scenario, path: &Path, quiet: bool) -> i32 {
    let rf: ReplayFile = match std::fs::read_to_string(path).ok().and_then(|s| serde_json::from_str(&s).ok()) {
        Some(r) => r,
        None => {
            eprintln!("cannot read replay file {}", path.display());
            return 2;
        }
    };
    let o = exec(scn, &rf.plan, true);
    if !quiet {
        for l in &o.record.log {
            println!("{l}");
        }
    }
    match &o.verdict.violation {
        Some(v) => {
            let fp = fingerprint(scn.id(), v);
            println!("fingerprint: {fp}");
            println!("detail: {}", v.detail);
            println!("log hash: {:016x} (recorded {:016x})", o.record.log_hash, rf.log_hash);
            if fp == rf.fingerprint && o.record.log_hash == rf.log_hash {
                println!("VIOLATION property={} replay={}", scn.id(), path.display());
                1
            } else if fp == rf.fingerprint {
                println!("REPLAY-DIVERGED: same fingerprint, different event log");
                2
            } else {
                println!("REPLAY-DIVERGED: different fingerprint (recorded {})", rf.fingerprint);
                2
            }
        }
        None => {
            println!("replay did not reproduce (recorded {})", rf.fingerprint);
            if let Some(e) = &o.verdict.harness_error {
                println!("harness error: {e}");
            }
            if o.verdict.inconclusive {
                println!("inconclusive: the run hit the step cap before quiescence");
            }
            2
        }
    }
}

pub fn arc<T>(v: T) -> Arc<std::sync::Mutex<T>> {
    Arc::new(std::sync::Mutex::new(v))
}
