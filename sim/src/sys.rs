//! Process-level seams: the harness binary defines `clock_gettime` and `getrandom`, so that
//! `Instant::now()` (async-lock's fairness switch) and `RandomState` keys (every `HashMap`
//! iteration order inside zbus) are functions of the simulation, not of the machine.
use std::sync::atomic::{AtomicBool, AtomicU64, Ordering::SeqCst};

pub static SIM_CLOCK_ON: AtomicBool = AtomicBool::new(false);
pub static SIM_CLOCK_NS: AtomicU64 = AtomicU64::new(0);
pub static SIM_RAND_ON: AtomicBool = AtomicBool::new(false);
pub static SIM_RAND_STATE: AtomicU64 = AtomicU64::new(0);
pub static CLOCK_READS: AtomicU64 = AtomicU64::new(0);
pub static RAND_READS: AtomicU64 = AtomicU64::new(0);

#[no_mangle]
pub unsafe extern "C" fn clock_gettime(clk: libc::clockid_t, ts: *mut libc::timespec) -> libc::c_int {
    if SIM_CLOCK_ON.load(SeqCst) {
        CLOCK_READS.fetch_add(1, SeqCst);
        let ns = SIM_CLOCK_NS.load(SeqCst);
        (*ts).tv_sec = (ns / 1_000_000_000) as libc::time_t;
        (*ts).tv_nsec = (ns % 1_000_000_000) as libc::c_long;
        0
    } else {
        libc::syscall(libc::SYS_clock_gettime, clk, ts) as libc::c_int
    }
}

#[no_mangle]
pub unsafe extern "C" fn getrandom(buf: *mut libc::c_void, len: libc::size_t, flags: libc::c_uint) -> libc::ssize_t {
    if SIM_RAND_ON.load(SeqCst) {
        RAND_READS.fetch_add(1, SeqCst);
        let out = std::slice::from_raw_parts_mut(buf as *mut u8, len);
        for chunk in out.chunks_mut(8) {
            let s = SIM_RAND_STATE.fetch_add(0x9E37_79B9_7F4A_7C15, SeqCst);
            let v = crate::rng::mix64(s).to_le_bytes();
            chunk.copy_from_slice(&v[..chunk.len()]);
        }
        len as libc::ssize_t
    } else {
        libc::syscall(libc::SYS_getrandom, buf, len, flags) as libc::ssize_t
    }
}

/// Real monotonic time in seconds (bypasses the override).
pub fn real_now_s() -> f64 {
    let mut ts = libc::timespec { tv_sec: 0, tv_nsec: 0 };
    unsafe {
        libc::syscall(libc::SYS_clock_gettime, libc::CLOCK_MONOTONIC, &mut ts as *mut libc::timespec);
    }
    ts.tv_sec as f64 + ts.tv_nsec as f64 * 1e-9
}

/// Exit code 2 unless both overrides are live.
pub fn selftest() -> Result<(), String> {
    SIM_CLOCK_NS.store(123_456_789_000, SeqCst);
    SIM_CLOCK_ON.store(true, SeqCst);
    let a = std::time::Instant::now();
    SIM_CLOCK_NS.store(123_456_789_000 + 5_000_000_000, SeqCst);
    let d = a.elapsed();
    SIM_CLOCK_ON.store(false, SeqCst);
    if d != std::time::Duration::from_secs(5) {
        return Err(format!("clock_gettime override not live (elapsed {d:?})"));
    }
    let order = |seed: u64| -> Vec<u32> {
        SIM_RAND_STATE.store(seed, SeqCst);
        SIM_RAND_ON.store(true, SeqCst);
        let v = std::thread::spawn(|| {
            let mut m = std::collections::HashMap::new();
            for i in 0..64u32 {
                m.insert(i, ());
            }
            m.keys().copied().collect::<Vec<_>>()
        })
        .join()
        .unwrap();
        SIM_RAND_ON.store(false, SeqCst);
        v
    };
    let (a, b, c) = (order(1), order(1), order(2));
    if a != b || a == c {
        return Err("getrandom override not live (HashMap order not controlled)".into());
    }
    Ok(())
}
