//! Small deterministic PRNG (splitmix64 seeding, xoshiro256**).

pub fn mix64(mut z: u64) -> u64 {
    z = z.wrapping_add(0x9E37_79B9_7F4A_7C15);
    z = (z ^ (z >> 30)).wrapping_mul(0xBF58_476D_1CE4_E5B9);
    z = (z ^ (z >> 27)).wrapping_mul(0x94D0_49BB_1331_11EB);
    z ^ (z >> 31)
}

#[derive(Clone, Debug)]
pub struct Rng {
    s: [u64; 4],
}

impl Rng {
    pub fn new(seed: u64) -> Self {
        let mut x = seed;
        let mut s = [0u64; 4];
        for v in &mut s {
            x = x.wrapping_add(0x9E37_79B9_7F4A_7C15);
            *v = mix64(x);
        }
        Rng { s }
    }

    pub fn next_u64(&mut self) -> u64 {
        let r = self.s[1].wrapping_mul(5).rotate_left(7).wrapping_mul(9);
        let t = self.s[1] << 17;
        self.s[2] ^= self.s[0];
        self.s[3] ^= self.s[1];
        self.s[1] ^= self.s[2];
        self.s[0] ^= self.s[3];
        self.s[2] ^= t;
        self.s[3] = self.s[3].rotate_left(45);
        r
    }

    /// Uniform in `0..n` (`n > 0`).
    pub fn below(&mut self, n: u64) -> u64 {
        debug_assert!(n > 0);
        ((self.next_u64() as u128 * n as u128) >> 64) as u64
    }

    pub fn usize(&mut self, n: usize) -> usize {
        self.below(n as u64) as usize
    }

    pub fn range(&mut self, lo: u64, hi_incl: u64) -> u64 {
        lo + self.below(hi_incl - lo + 1)
    }

    pub fn chance(&mut self, num: u64, den: u64) -> bool {
        self.below(den) < num
    }

    pub fn pick<'a, T>(&mut self, xs: &'a [T]) -> &'a T {
        &xs[self.usize(xs.len())]
    }

    pub fn bytes(&mut self, n: usize) -> Vec<u8> {
        (0..n).map(|_| self.next_u64() as u8).collect()
    }

    pub fn fork(&mut self) -> Rng {
        Rng::new(self.next_u64())
    }
}

/// FNV-1a rolling hash for event logs.
#[derive(Clone, Copy, Debug)]
pub struct Fnv(pub u64);

impl Default for Fnv {
    fn default() -> Self {
        Fnv(0xcbf2_9ce4_8422_2325)
    }
}

impl Fnv {
    pub fn write(&mut self, bytes: &[u8]) {
        for b in bytes {
            self.0 ^= *b as u64;
            self.0 = self.0.wrapping_mul(0x0100_0000_01b3);
        }
    }
    pub fn write_u64(&mut self, v: u64) {
        self.write(&v.to_le_bytes());
    }
}
