//! Sanity check of repairs against the *real* runtime (async-io, real sockets, no simulator):
//! on-demand object server registration must neither hang nor lose the first call, with and
//! without the internal executor thread.
use std::{os::unix::net::UnixStream, time::Duration};

use zbus::{connection::Builder, interface, Guid};

struct Ping;

#[interface(name = "org.real.Ping")]
impl Ping {
    fn ping(&self, v: u32) -> u32 {
        v + 1
    }
}

async fn async_io_sleep(ms: u64) {
    // a thread-based sleep that does not block the executor
    let (tx, rx) = std::sync::mpsc::channel::<()>();
    std::thread::spawn(move || {
        std::thread::sleep(Duration::from_millis(ms));
        let _ = tx.send(());
    });
    while rx.try_recv().is_err() {
        futures_lite::future::yield_now().await;
    }
}

fn one(internal_executor: bool) -> Result<(), String> {
    let (a, b) = UnixStream::pair().map_err(|e| e.to_string())?;
    let guid = Guid::generate();
    let done = std::sync::Arc::new(std::sync::Mutex::new(None::<Result<u32, String>>));
    let d2 = done.clone();
    std::thread::spawn(move || {
        let r: Result<u32, String> = zbus::block_on(async move {
            let sb = Builder::unix_stream(a).server(guid).map_err(|e| e.to_string())?.p2p().internal_executor(internal_executor);
            let cb = Builder::unix_stream(b).p2p();
            let (server, client) = futures_lite::future::zip(sb.build(), cb.build()).await;
            let (server, client) = (server.map_err(|e| e.to_string())?, client.map_err(|e| e.to_string())?);
            // nothing ticks the server's executor yet when the internal executor is disabled
            let added = server.object_server().at("/p", Ping).await.map_err(|e| e.to_string())?;
            if !added {
                return Err("not added".into());
            }
            if !internal_executor {
                let s2 = server.clone();
                std::thread::spawn(move || {
                    zbus::block_on(async move {
                        loop {
                            s2.executor().tick().await;
                        }
                    })
                });
            }
            if let Ok(ms) = std::env::var("REAL_SLEEP_MS") {
                async_io_sleep(ms.parse().unwrap_or(0)).await;
            }
            let m = client.call_method(None::<&str>, "/p", Some("org.real.Ping"), "Ping", &41u32).await.map_err(|e| e.to_string())?;
            m.body().deserialize::<u32>().map_err(|e| e.to_string())
        });
        *d2.lock().unwrap() = Some(r);
    });
    for _ in 0..100 {
        std::thread::sleep(Duration::from_millis(50));
        if let Some(r) = done.lock().unwrap().take() {
            return match r {
                Ok(42) => Ok(()),
                other => Err(format!("unexpected result {other:?}")),
            };
        }
    }
    Err("timed out (hang)".into())
}

/// A send whose future is dropped after a partial write (the peer is not reading, the socket buffer is
/// full) must not leave half a message on the socket: the next message has to arrive whole, after the
/// first one.  Real socket, real async-io reactor, internal executor thread.
fn cancelled_send() -> Result<(), String> {
    use std::io::{Read, Write};
    let (a, mut b) = UnixStream::pair().map_err(|e| e.to_string())?;
    let guid = Guid::generate();
    let (len_tx, len_rx) = std::sync::mpsc::channel::<(usize, Vec<u8>)>();
    // raw peer: client handshake by hand, then a pause, then read two frames
    let peer = std::thread::spawn(move || -> Result<(), String> {
        let uid = unsafe { libc::getuid() }.to_string();
        let hex: String = uid.bytes().map(|c| format!("{c:02x}")).collect();
        b.write_all(format!("\0AUTH EXTERNAL {hex}\r\nBEGIN\r\n").as_bytes()).map_err(|e| e.to_string())?;
        let mut line = vec![];
        let mut one = [0u8; 1];
        while !line.ends_with(b"\r\n") {
            b.read_exact(&mut one).map_err(|e| e.to_string())?;
            line.push(one[0]);
        }
        if !line.starts_with(b"OK ") {
            return Err(format!("handshake: {:?}", String::from_utf8_lossy(&line)));
        }
        let (len1, msg2) = len_rx.recv_timeout(Duration::from_secs(20)).map_err(|e| e.to_string())?;
        b.set_read_timeout(Some(Duration::from_secs(20))).ok();
        let read_frame = |b: &mut UnixStream| -> Result<Vec<u8>, String> {
            let mut h = [0u8; 16];
            b.read_exact(&mut h).map_err(|e| format!("header: {e}"))?;
            if h[0] != b'l' && h[0] != b'B' {
                return Err(format!("frame does not start with an endianness byte: {:02x?}", &h));
            }
            let u = |x: &[u8]| if h[0] == b'l' { u32::from_le_bytes(x.try_into().unwrap()) } else { u32::from_be_bytes(x.try_into().unwrap()) } as usize;
            let (body, fields) = (u(&h[4..8]), u(&h[12..16]));
            let rest = (fields + 7) / 8 * 8 + body;
            let mut v = h.to_vec();
            v.resize(16 + rest, 0);
            b.read_exact(&mut v[16..]).map_err(|e| format!("frame body: {e}"))?;
            Ok(v)
        };
        let f1 = read_frame(&mut b)?;
        if f1.len() != len1 {
            return Err(format!("first frame has {} bytes, the message had {len1}", f1.len()));
        }
        let f2 = read_frame(&mut b)?;
        if f2 != msg2 {
            return Err("second frame differs from the second message".into());
        }
        Ok(())
    });
    let r: Result<(), String> = zbus::block_on(async move {
        let conn = Builder::unix_stream(a).server(guid).map_err(|e| e.to_string())?.p2p().build().await.map_err(|e| e.to_string())?;
        let big = zbus::Message::signal("/r", "org.real.I", "Big").map_err(|e| e.to_string())?.build(&vec![7u8; 4 << 20]).map_err(|e| e.to_string())?;
        let small = zbus::Message::signal("/r", "org.real.I", "Small").map_err(|e| e.to_string())?.build(&"after").map_err(|e| e.to_string())?;
        // the peer is not reading: this send gets stuck after filling the socket buffer and is then dropped
        let completed = futures_lite::future::or(async { conn.send(&big).await.map(|_| true) }, async {
            async_io_sleep(300).await;
            Ok(false)
        })
        .await
        .map_err(|e| e.to_string())?;
        if completed {
            return Err("the big send completed although nobody was reading (test set-up)".into());
        }
        len_tx.send((big.data().len(), small.data().to_vec())).map_err(|e| e.to_string())?;
        conn.send(&small).await.map_err(|e| e.to_string())?;
        Ok(())
    });
    r?;
    peer.join().map_err(|_| "peer panicked".to_string())?
}

fn main() {
    let mut bad = 0;
    for round in 0..5 {
        if let Err(e) = cancelled_send() {
            println!("cancelled_send round {round}: {e}");
            bad += 1;
            break;
        }
    }
    for ie in [true, false] {
        for round in 0..20 {
            if let Err(e) = one(ie) {
                println!("internal_executor={ie} round {round}: {e}");
                bad += 1;
                break;
            }
        }
    }
    println!("realcheck: {}", if bad == 0 { "ok" } else { "FAILED" });
    std::process::exit(if bad == 0 { 0 } else { 1 });
}
