//! Sanity check of repairs against the *real* runtime (async-io, real sockets, no simulator):
//! on-demand object server registration must neither hang nor lose the first call, with and
//! without the internal executor thread.
use std::{os::unix::net::UnixStream, time::Duration};

use zbus::{connection::Builder, interface, Guid};

struct Ping;

#[interface(name = "org.real.Ping")]
impl Ping {
    fn ping(&self, v: u32) -> u32 {
        v + 1
    }
}

async fn async_io_sleep(ms: u64) {
    // a thread-based sleep that does not block the executor
    let (tx, rx) = std::sync::mpsc::channel::<()>();
    std::thread::spawn(move || {
        std::thread::sleep(Duration::from_millis(ms));
        let _ = tx.send(());
    });
    while rx.try_recv().is_err() {
        futures_lite::future::yield_now().await;
    }
}

fn one(internal_executor: bool) -> Result<(), String> {
    let (a, b) = UnixStream::pair().map_err(|e| e.to_string())?;
    let guid = Guid::generate();
    let done = std::sync::Arc::new(std::sync::Mutex::new(None::<Result<u32, String>>));
    let d2 = done.clone();
    std::thread::spawn(move || {
        let r: Result<u32, String> = zbus::block_on(async move {
            let sb = Builder::unix_stream(a).server(guid).map_err(|e| e.to_string())?.p2p().internal_executor(internal_executor);
            let cb = Builder::unix_stream(b).p2p();
            let (server, client) = futures_lite::future::zip(sb.build(), cb.build()).await;
            let (server, client) = (server.map_err(|e| e.to_string())?, client.map_err(|e| e.to_string())?);
            // nothing ticks the server's executor yet when the internal executor is disabled
            let added = server.object_server().at("/p", Ping).await.map_err(|e| e.to_string())?;
            if !added {
                return Err("not added".into());
            }
            if !internal_executor {
                let s2 = server.clone();
                std::thread::spawn(move || {
                    zbus::block_on(async move {
                        loop {
                            s2.executor().tick().await;
                        }
                    })
                });
            }
            if let Ok(ms) = std::env::var("REAL_SLEEP_MS") {
                async_io_sleep(ms.parse().unwrap_or(0)).await;
            }
            let m = client.call_method(None::<&str>, "/p", Some("org.real.Ping"), "Ping", &41u32).await.map_err(|e| e.to_string())?;
            m.body().deserialize::<u32>().map_err(|e| e.to_string())
        });
        *d2.lock().unwrap() = Some(r);
    });
    for _ in 0..100 {
        std::thread::sleep(Duration::from_millis(50));
        if let Some(r) = done.lock().unwrap().take() {
            return match r {
                Ok(42) => Ok(()),
                other => Err(format!("unexpected result {other:?}")),
            };
        }
    }
    Err("timed out (hang)".into())
}

fn main() {
    let mut bad = 0;
    for ie in [true, false] {
        for round in 0..20 {
            if let Err(e) = one(ie) {
                println!("internal_executor={ie} round {round}: {e}");
                bad += 1;
                break;
            }
        }
    }
    println!("realcheck: {}", if bad == 0 { "ok" } else { "FAILED" });
    std::process::exit(if bad == 0 { 0 } else { 1 });
}
