//! C25 — ObjectManager signals track the managed object set.
use std::collections::{BTreeMap, HashMap};

use futures_lite::StreamExt;
use serde::{Deserialize, Serialize};
use serde_json::Value;
use zbus::{
    fdo::ObjectManager,
    zvariant::{OwnedObjectPath, OwnedValue},
    Connection, MatchRule, MessageStream,
};

use super::common::*;
use crate::{
    corpus::{C, D, E},
    framework::{Scenario, Tier, Verdict},
    kernel::{SchedCfg, World},
    net::{sim_socket_pair, LinkCfg, SockCfg},
    rng::Rng,
};

pub struct C25Scn;
pub static C25: C25Scn = C25Scn;

const PATHS: &[&str] = &["/a", "/a/b", "/a/b/c", "/d/x", "/a/e", "/d"];
/// manager 0 is used alone; managers 1 and 2 are siblings (nested managers are documented as
/// unsupported by the implementation: "they shouldn't")
const MANAGERS: &[&str] = &["/", "/a", "/d"];

#[derive(Clone, Copy, Debug, Serialize, Deserialize, PartialEq)]
enum Op {
    At(u8, u8),
    Remove(u8, u8),
    AddManager(u8),
    RemoveManager(u8),
}

#[derive(Clone, Debug, Serialize, Deserialize, PartialEq)]
struct P {
    /// the manager the client follows
    follow: u8,
    /// registrations before the client starts
    initial: Vec<Op>,
    /// an operation that runs concurrently with the client's GetManagedObjects call
    during_snapshot: Option<Op>,
    /// later operations, quiescence (and a comparison) after each
    ops: Vec<Op>,
    /// per later operation: a second operation that runs concurrently with it
    #[serde(default)]
    with: Vec<Option<Op>>,
    link: LinkCfg,
    /// fault kind `cancel_task`: the last later operation (an `at` / `remove` of an interface, run alone) is
    /// dropped at its n-th await point; whether it took effect is then open, but the client must still track
    #[serde(default)]
    cancel_last: Option<u32>,
}

type View = BTreeMap<String, BTreeMap<String, BTreeMap<String, String>>>;

#[derive(Clone, Debug)]
enum Signal {
    Added(String, String, BTreeMap<String, BTreeMap<String, String>>),
    Removed(String, String, Vec<String>),
}

async fn do_op(conn: &Connection, op: Op, token: u32) -> Result<String, String> {
    let os = conn.object_server();
    let r = match op {
        Op::At(p, i) => match i {
            0 => os.at(PATHS[p as usize], C(token)).await,
            1 => os.at(PATHS[p as usize], D(token)).await,
            _ => os.at(PATHS[p as usize], E(token)).await,
        }
        .map(|b| format!("{b}")),
        Op::Remove(p, i) => match i {
            0 => os.remove::<C, _>(PATHS[p as usize]).await,
            1 => os.remove::<D, _>(PATHS[p as usize]).await,
            _ => os.remove::<E, _>(PATHS[p as usize]).await,
        }
        .map(|b| format!("{b}")),
        Op::AddManager(m) => os.at(MANAGERS[m as usize], ObjectManager).await.map(|b| format!("{b}")),
        Op::RemoveManager(m) => os.remove::<ObjectManager, _>(MANAGERS[m as usize]).await.map(|b| format!("{b}")),
    };
    match r {
        Ok(s) => Ok(s),
        Err(zbus::Error::InterfaceNotFound) => Ok("not-found".into()),
        Err(e) => Err(e.to_string()),
    }
}

fn view_of(mo: HashMap<OwnedObjectPath, HashMap<zbus::names::OwnedInterfaceName, HashMap<String, OwnedValue>>>) -> View {
    let mut v = View::new();
    for (p, ifaces) in mo {
        let mut im = BTreeMap::new();
        for (i, props) in ifaces {
            im.insert(i.to_string(), props.into_iter().map(|(k, v)| (k, format!("{:?}", *v))).collect());
        }
        if !im.is_empty() {
            v.insert(p.to_string(), im);
        }
    }
    v
}

async fn snapshot(conn: &Connection, mpath: &str) -> Result<View, String> {
    let m = conn.call_method(None::<&str>, mpath, Some("org.freedesktop.DBus.ObjectManager"), "GetManagedObjects", &()).await.map_err(|e| e.to_string())?;
    let mo: HashMap<OwnedObjectPath, HashMap<zbus::names::OwnedInterfaceName, HashMap<String, OwnedValue>>> = m.body().deserialize().map_err(|e| e.to_string())?;
    Ok(view_of(mo))
}

fn apply(view: &mut View, s: &Signal, mpath: &str) {
    match s {
        Signal::Added(from, path, ifaces) if from == mpath => {
            // (paths that carry no interfaces are ignored, as the statement says)
            if ifaces.is_empty() {
                return;
            }
            let e = view.entry(path.clone()).or_default();
            for (i, props) in ifaces {
                e.insert(i.clone(), props.clone());
            }
        }
        Signal::Removed(from, path, ifaces) if from == mpath => {
            if let Some(e) = view.get_mut(path) {
                for i in ifaces {
                    e.remove(i);
                }
                if e.is_empty() {
                    view.remove(path);
                }
            }
        }
        _ => {}
    }
}

impl Scenario for C25Scn {
    fn id(&self) -> &'static str {
        "C25"
    }
    fn rule(&self) -> &'static str {
        "a real client subscribes to ObjectManager signals, calls GetManagedObjects on the manager it follows (at / or /a) while, optionally, a registration or removal runs concurrently on the server, and from then on applies every InterfacesAdded / InterfacesRemoved it received since sending that call, in order and idempotently; the server runs a history of 0..6 further at / remove operations, a third of them concurrently with a second operation (often the inverse one on the same path and interface; one interface has an async property getter that really yields), over 6 paths (nested, and the managers' own paths) x 3 interface types, including adding and removing ObjectManager itself, a second, sibling manager and - for a client of an inner manager - an outer manager at the root (nested managers, judged from the inside); after every operation (quiescence) the client's view must equal a fresh GetManagedObjects of that manager, including each interface's properties, ignoring paths without interfaces; when the followed manager disappears the client starts over from a fresh listing once it is back; in a quarter of the runs the last operation (an at / remove run alone) is cancelled at one of its first await points (fault kind cancel_task): whether it took effect is open, the client view must still equal a fresh listing; non-trivial = a registration happened between the client's call and its reply, or the history touched a manager"
    }
    fn runs(&self, tier: Tier) -> u64 {
        match tier {
            Tier::Quick => 4_000,
            Tier::Thorough => 250_000,
        }
    }
    fn real(&self) -> Vec<&'static str> {
        vec!["ObjectServer::at / remove with ObjectManager bookkeeping", "Node::get_managed_objects / get_properties", "fdo::ObjectManager (GetManagedObjects, InterfacesAdded, InterfacesRemoved)", "two real connections, MessageStream on the client"]
    }
    fn stubbed(&self) -> Vec<&'static str> {
        vec!["OS sockets", "executor (seeded scheduler)", "clock"]
    }
    fn assumptions(&self) -> Vec<&'static str> {
        vec!["only the closest manager above a path announces it (as the implementation documents); the client follows one manager", "property values in the corpus do not change between registration and the comparison"]
    }

    fn generate(&self, rng: &mut Rng, _idx: u64, _tier: Tier) -> (SchedCfg, Value) {
        let follow = *rng.pick(&[0u8, 0, 1, 2]);
        // A client of the root manager never sees another manager (the root's listing would include objects that
        // only an inner manager announces: nested managers are judged from the inside only).  A client of /a or
        // /d may see the sibling and also an *outer* manager at the root come and go: the closest manager above
        // an object announces it, so nothing the root manager does may change what the inner one says.
        let pick_manager = move |rng: &mut Rng| if follow == 0 { 0u8 } else { *rng.pick(&[0u8, 1, 1, 2, 2]) };
        let gen = move |rng: &mut Rng| match rng.below(10) {
            0..=4 => Op::At(rng.below(6) as u8, rng.below(3) as u8),
            5..=7 => Op::Remove(rng.below(6) as u8, rng.below(3) as u8),
            8 => Op::AddManager(pick_manager(rng)),
            _ => Op::RemoveManager(pick_manager(rng)),
        };
        let mut initial = vec![Op::AddManager(follow)];
        for _ in 0..rng.below(4) {
            initial.push(Op::At(rng.below(6) as u8, rng.below(3) as u8));
        }
        let during_snapshot = if rng.chance(1, 2) { Some(gen(rng)) } else { None };
        let ops: Vec<Op> = (0..rng.below(7)).map(|_| gen(rng)).collect();
        // concurrent partner: often the inverse operation on the same path and interface
        let with: Vec<Option<Op>> = ops
            .iter()
            .map(|op| {
                if !rng.chance(1, 3) {
                    return None;
                }
                Some(match (*op, rng.chance(2, 3)) {
                    (Op::At(p, i), true) => Op::Remove(p, i),
                    (Op::Remove(p, i), true) => Op::At(p, i),
                    _ => gen(rng),
                })
            })
            .collect();
        let sched = SchedCfg::generate(rng, &["signals", "socket reader", "obj_server_task"]);
        let mut with = with;
        let cancel_last = if !ops.is_empty() && matches!(ops[ops.len() - 1], Op::At(..) | Op::Remove(..)) && rng.chance(1, 2) {
            let last = ops.len() - 1;
            if with.len() > last {
                with[last] = None;
            }
            Some(rng.below(3) as u32)
        } else {
            None
        };
        (sched, j(&P { follow, initial, during_snapshot, ops, with, link: gen_read_cfg(rng), cancel_last }))
    }

    fn shrink(&self, body: &Value) -> Vec<Value> {
        let p: P = unj(body);
        let mut out = vec![];
        for i in (0..p.ops.len()).rev() {
            let mut q = p.clone();
            q.ops.remove(i);
            if i < q.with.len() {
                q.with.remove(i);
            }
            out.push(j(&q));
        }
        for i in 0..p.with.len() {
            if p.with[i].is_some() {
                let mut q = p.clone();
                q.with[i] = None;
                out.push(j(&q));
            }
        }
        for v in drop_candidates(&p.initial[1..]) {
            let mut q = p.clone();
            q.initial = std::iter::once(p.initial[0]).chain(v).collect();
            out.push(j(&q));
        }
        if p.during_snapshot.is_some() {
            let mut q = p.clone();
            q.during_snapshot = None;
            out.push(j(&q));
        }
        if let Some(n) = p.cancel_last {
            let mut q = p.clone();
            q.cancel_last = if n > 0 { Some(n - 1) } else { None };
            out.push(j(&q));
        }
        if p.link != LinkCfg::default() {
            let mut q = p.clone();
            q.link = LinkCfg::default();
            out.push(j(&q));
        }
        out
    }

    fn run(&self, w: &World, body: &Value) -> Verdict {
        let p: P = unj(body);
        let mpath = MANAGERS[p.follow as usize];
        let (sa, sb) = sim_socket_pair(w, p.link.clone(), p.link.clone(), SockCfg::default(), SockCfg::default());
        let conns = shared(None::<(Connection, Connection)>);
        let c2 = conns.clone();
        let init = p.initial.clone();
        let setup_err = shared(None::<String>);
        let se = setup_err.clone();
        let setup = w.spawn("setup", async move {
            if let Ok((a, b)) = build_pair(sa, sb).await {
                let _ = a.object_server();
                for (k, op) in init.iter().enumerate() {
                    if let Err(e) = do_op(&a, *op, 1000 + k as u32).await {
                        *se.lock().unwrap() = Some(format!("{op:?}: {e}"));
                    }
                }
                *c2.lock().unwrap() = Some((a, b));
            }
        });
        w.run();
        drop(setup);
        if let Some(e) = setup_err.lock().unwrap().take() {
            return Verdict::fail("op", "initial-operation-failed", e);
        }
        let Some((server, client)) = conns.lock().unwrap().take() else { return Verdict::harness("pair did not build") };

        // ---- client: signal log ----
        let sigs = shared(Vec::<Signal>::new());
        let ready = shared(false);
        let (s2, r2, cl) = (sigs.clone(), ready.clone(), client.clone());
        let watcher = w.spawn("signals", async move {
            let rule = MatchRule::builder().msg_type(zbus::message::Type::Signal).interface("org.freedesktop.DBus.ObjectManager").unwrap().build();
            let Ok(mut st) = MessageStream::for_match_rule(rule, &cl, Some(64)).await else { return };
            *r2.lock().unwrap() = true;
            while let Some(Ok(m)) = st.next().await {
                let h = m.header();
                let from = h.path().map(|p| p.to_string()).unwrap_or_default();
                match h.member().map(|m| m.to_string()).as_deref() {
                    Some("InterfacesAdded") => {
                        if let Ok((path, ifaces)) = m.body().deserialize::<(OwnedObjectPath, HashMap<String, HashMap<String, OwnedValue>>)>() {
                            let im = ifaces.into_iter().map(|(i, props)| (i, props.into_iter().map(|(k, v)| (k, format!("{:?}", *v))).collect())).collect();
                            s2.lock().unwrap().push(Signal::Added(from, path.to_string(), im));
                        }
                    }
                    Some("InterfacesRemoved") => {
                        if let Ok((path, ifaces)) = m.body().deserialize::<(OwnedObjectPath, Vec<String>)>() {
                            s2.lock().unwrap().push(Signal::Removed(from, path.to_string(), ifaces));
                        }
                    }
                    _ => {}
                }
            }
        });
        w.run();
        if !*ready.lock().unwrap() {
            return Verdict::harness("client could not subscribe");
        }

        // run one server operation (and optionally a second one concurrently) to quiescence
        let cancel_here = std::cell::Cell::new(None::<u32>);
        let run_ops = |op: Op, partner: Option<Op>, token: u32| -> (Result<String, String>, Option<Result<String, String>>) {
            let res = shared(None);
            let (r, s) = (res.clone(), server.clone());
            let t = w.spawn("server-op", cancel_after(w, cancel_here.get(), async move {
                *r.lock().unwrap() = Some(do_op(&s, op, token).await);
            }));
            let res2 = shared(None);
            let t2 = partner.map(|op2| {
                let (r, s) = (res2.clone(), server.clone());
                w.spawn("server-op-2", async move {
                    *r.lock().unwrap() = Some(do_op(&s, op2, token + 500).await);
                })
            });
            w.run();
            drop(t);
            drop(t2);
            let x = res.lock().unwrap().take();
            let y = res2.lock().unwrap().take();
            (x.unwrap_or_else(|| Err("operation never returned".into())), partner.map(|_| y.unwrap_or_else(|| Err("operation never returned".into()))))
        };
        let take_snapshot = |concurrent: Option<Op>| -> (Option<Result<View, String>>, Option<Result<String, String>>) {
            let snap = shared(None);
            let (sn, cl) = (snap.clone(), client.clone());
            let t1 = w.spawn("client-snapshot", async move {
                *sn.lock().unwrap() = Some(snapshot(&cl, mpath).await);
            });
            let opres = shared(None);
            let t2 = concurrent.map(|op| {
                let (r, s) = (opres.clone(), server.clone());
                w.spawn("server-op", async move {
                    *r.lock().unwrap() = Some(do_op(&s, op, 5000).await);
                })
            });
            w.run();
            drop(t1);
            drop(t2);
            let a = snap.lock().unwrap().take();
            let b = opres.lock().unwrap().take();
            (a, b)
        };

        // model of which managers / interfaces exist (to know when comparisons are meaningful)
        #[derive(Clone, PartialEq)]
        struct St {
            managers: [bool; 3],
            registered: BTreeMap<(u8, u8), ()>,
        }
        // expected result class of `op` in `st` (at: "true"/"false"; remove: "ok"/"not-found") and the new state
        fn predict(op: Op, st: &St) -> (&'static str, St) {
            let mut n = st.clone();
            let r = match op {
                Op::At(p, i) => {
                    if n.registered.insert((p, i), ()).is_some() {
                        "false"
                    } else {
                        "true"
                    }
                }
                Op::Remove(p, i) => {
                    if n.registered.remove(&(p, i)).is_some() {
                        "ok"
                    } else {
                        "not-found"
                    }
                }
                Op::AddManager(m) => {
                    if n.managers[m as usize] {
                        "false"
                    } else {
                        n.managers[m as usize] = true;
                        "true"
                    }
                }
                Op::RemoveManager(m) => {
                    if n.managers[m as usize] {
                        n.managers[m as usize] = false;
                        "ok"
                    } else {
                        "not-found"
                    }
                }
            };
            (r, n)
        }
        fn class(op: Op, r: &str) -> &'static str {
            match op {
                Op::At(..) | Op::AddManager(_) => {
                    if r == "true" {
                        "true"
                    } else {
                        "false"
                    }
                }
                _ => {
                    if r == "not-found" {
                        "not-found"
                    } else {
                        "ok"
                    }
                }
            }
        }
        // apply one or two (concurrent) operations: pick the order that explains the observed results
        fn advance(st: &St, a: (Op, &str), b: Option<(Op, &str)>) -> Option<St> {
            let seq = |first: (Op, &str), second: Option<(Op, &str)>| -> Option<St> {
                let (r1, s1) = predict(first.0, st);
                if r1 != class(first.0, first.1) {
                    return None;
                }
                match second {
                    None => Some(s1),
                    Some(x) => {
                        let (r2, s2) = predict(x.0, &s1);
                        if r2 == class(x.0, x.1) {
                            Some(s2)
                        } else {
                            None
                        }
                    }
                }
            };
            match b {
                None => seq(a, None),
                Some(b) => seq(a, Some(b)).or_else(|| seq(b, Some(a))),
            }
        }
        let mut st = St { managers: [false, false, false], registered: BTreeMap::new() };
        for op in &p.initial {
            // (initial registrations may repeat a pair: the second one is refused)
            st = predict(*op, &st).1;
        }

        let mut touched_manager = false;
        let mut concurrent = false;
        let mut verdict = None;
        // ---- initial snapshot (possibly racing an operation) ----
        let i0 = sigs.lock().unwrap().len();
        let (snap, opres) = take_snapshot(p.during_snapshot);
        if let (Some(op), Some(r)) = (p.during_snapshot, &opres) {
            if let Err(e) = r {
                verdict = Some(Verdict::fail("op", "operation-failed", format!("{op:?} during the snapshot: {e}")));
            }
            if let Ok(rs) = r {
                match advance(&st, (op, rs.as_str()), None) {
                    Some(n) => st = n,
                    None => verdict = Some(Verdict::fail("op", "result-inconsistent", format!("{op:?} during the snapshot returned {rs} which the registration model cannot explain"))),
                }
            }
            if matches!(op, Op::AddManager(_) | Op::RemoveManager(_)) {
                touched_manager = true;
            }
        }
        let mut view: Option<View> = match snap {
            Some(Ok(v)) => {
                let mut v = v;
                for s in sigs.lock().unwrap()[i0..].iter() {
                    apply(&mut v, s, mpath);
                }
                Some(v)
            }
            Some(Err(_)) => None, // the manager vanished under the call: start over later
            None => {
                verdict = Some(Verdict::fail("hang", "snapshot-never-returned", "GetManagedObjects was never answered".to_string()));
                None
            }
        };
        let mut applied = sigs.lock().unwrap().len();

        let compare = |view: &View, step: &str| -> Option<Verdict> {
            let (fresh, _) = take_snapshot(None);
            match fresh {
                Some(Ok(f)) => {
                    if *view != f {
                        let only_client: Vec<String> = view.iter().flat_map(|(p, is)| is.keys().filter(|i| !f.get(p).map(|x| x.contains_key(*i)).unwrap_or(false)).map(move |i| format!("{p}:{i}"))).collect();
                        let only_fresh: Vec<String> = f.iter().flat_map(|(p, is)| is.keys().filter(|i| !view.get(p).map(|x| x.contains_key(*i)).unwrap_or(false)).map(move |i| format!("{p}:{i}"))).collect();
                        let disc = if !only_fresh.is_empty() {
                            "client-misses-object"
                        } else if !only_client.is_empty() {
                            "client-keeps-removed-object"
                        } else {
                            "properties-differ"
                        };
                        Some(Verdict::fail("tracking", disc, format!("{step}: tracking client (manager {mpath}) has extra {only_client:?}, lacks {only_fresh:?}; client view {view:?}; fresh listing {f:?}")))
                    } else {
                        None
                    }
                }
                Some(Err(e)) => Some(Verdict::fail("listing", "fresh-listing-failed", format!("{step}: GetManagedObjects on an existing manager failed: {e}"))),
                None => Some(Verdict::fail("hang", "listing-never-returned", format!("{step}: GetManagedObjects was never answered"))),
            }
        };

        if verdict.is_none() && st.managers[p.follow as usize] {
            if let Some(v) = &view {
                verdict = compare(v, "after the initial snapshot");
            }
        }
        // ---- later operations ----
        if verdict.is_none() {
            for (k, op) in p.ops.iter().enumerate() {
                let had = st.managers[p.follow as usize];
                let partner = p.with.get(k).copied().flatten();
                if let (Some(n), true, None, Op::At(..) | Op::Remove(..)) = (p.cancel_last, k + 1 == p.ops.len(), partner, op) {
                    // the cancelled operation: no result, effect open; the client's view must still equal a fresh listing
                    cancel_here.set(Some(n));
                    let (r, _) = run_ops(*op, None, 2000 + k as u32);
                    cancel_here.set(None);
                    if r.is_err() {
                        w.count("probe.server_operation_cancelled_midway");
                    }
                    if let (true, Some(v)) = (had, view.as_mut()) {
                        let new_sigs: Vec<Signal> = sigs.lock().unwrap()[applied..].to_vec();
                        for s in &new_sigs {
                            apply(v, s, mpath);
                        }
                        if let Some(mut bad) = compare(v, &format!("after cancelled op {k} {op:?}")) {
                            if let Some(viol) = bad.violation.as_mut() {
                                viol.disc = format!("after-cancelled-operation-{}", viol.disc);
                            }
                            verdict = Some(bad);
                        }
                    }
                    break;
                }
                let (r, r2) = run_ops(*op, partner, 2000 + k as u32);
                if let Err(e) = &r {
                    verdict = Some(Verdict::fail("op", "operation-failed", format!("op {k} {op:?}: {e}")));
                    break;
                }
                if let (Some(op2), Some(Err(e))) = (partner, &r2) {
                    verdict = Some(Verdict::fail("op", "operation-failed", format!("op {k} partner {op2:?}: {e}")));
                    break;
                }
                let a = (*op, r.as_ref().unwrap().as_str());
                let b = match (partner, &r2) {
                    (Some(op2), Some(Ok(rs))) => Some((op2, rs.as_str())),
                    _ => None,
                };
                match advance(&st, a, b) {
                    Some(n) => st = n,
                    None => {
                        verdict = Some(Verdict::fail("op", "result-inconsistent", format!("op {k} {op:?} -> {r:?} with concurrent {partner:?} -> {r2:?}: no order of the two explains these results")));
                        break;
                    }
                }
                if let Some(op2) = partner {
                    concurrent = true;
                    if matches!(op2, Op::AddManager(_) | Op::RemoveManager(_)) {
                        touched_manager = true;
                    }
                }
                if matches!(op, Op::AddManager(_) | Op::RemoveManager(_)) {
                    touched_manager = true;
                }
                let has = st.managers[p.follow as usize];
                let new_sigs: Vec<Signal> = sigs.lock().unwrap()[applied..].to_vec();
                applied += new_sigs.len();
                if !has {
                    view = None;
                    continue;
                }
                if !had || view.is_none() {
                    // the manager is (back): start from a fresh listing
                    let (snap, _) = take_snapshot(None);
                    applied = sigs.lock().unwrap().len();
                    view = match snap {
                        Some(Ok(v)) => Some(v),
                        other => {
                            verdict = Some(Verdict::fail("listing", "fresh-listing-failed", format!("after op {k} {op:?}: {other:?}")));
                            break;
                        }
                    };
                    continue;
                }
                let v = view.as_mut().unwrap();
                for s in &new_sigs {
                    apply(v, s, mpath);
                }
                if let Some(bad) = compare(v, &format!("after op {k} {op:?} ({r:?})")) {
                    verdict = Some(bad);
                    break;
                }
            }
        }
        drop(watcher);
        drop(server);
        drop(client);
        let raced = p.during_snapshot.is_some();
        if raced {
            w.count("probe.operation_raced_the_snapshot");
        }
        if touched_manager {
            w.count("probe.manager_added_or_removed");
        }
        if concurrent {
            w.count("probe.two_server_operations_ran_concurrently");
        }
        verdict.unwrap_or_else(|| Verdict::ok(raced || touched_manager || concurrent))
    }
}
