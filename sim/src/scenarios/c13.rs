//! C13 — valid messages with unknown header fields, flags or types are tolerated.
use event_listener::Event;
use futures_lite::StreamExt;
use serde::{Deserialize, Serialize};
use serde_json::Value;
use std::sync::Arc;
use zbus::MessageStream;

use super::common::*;
use crate::{
    framework::{Scenario, Tier, Verdict},
    kernel::{SchedCfg, World},
    net::{sim_pair, LinkCfg, SockCfg},
    peers::PeerReader,
    rng::Rng,
    wire::{RawMsg, Val, T_CALL, T_SIGNAL},
};

pub struct C13Scn;
pub static C13: C13Scn = C13Scn;

#[derive(Clone, Copy, Debug, Serialize, Deserialize, PartialEq)]
enum X {
    /// extra header field with this code and a value of this kind
    Field(u8, u8),
    /// flags byte (has at least one bit outside 0x07)
    Flags(u8),
    /// message type code (5..=255)
    Type(u8),
}

#[derive(Clone, Debug, Serialize, Deserialize, PartialEq)]
struct P {
    x: X,
    big: bool,
    /// the unknown field goes first / last in the fields array
    field_first: bool,
    link: LinkCfg,
}

const N_KINDS: u8 = 8;

fn field_val(kind: u8) -> Val {
    match kind % N_KINDS {
        0 => Val::Byte(7),
        1 => Val::Bool(true),
        2 => Val::U32(0xdead_beef),
        3 => Val::U64(u64::MAX),
        4 => Val::str("some string"),
        5 => Val::Path("/an/object/path".into()),
        6 => Val::Array("y".into(), vec![Val::Byte(1), Val::Byte(2), Val::Byte(3)]),
        _ => Val::Struct(vec![Val::U32(1), Val::str("two"), Val::F64(3.0)]),
    }
}

fn enumerate_x() -> Vec<X> {
    let mut v = vec![];
    for code in 10..=255u8 {
        for k in 0..N_KINDS {
            v.push(X::Field(code, k));
        }
    }
    for f in 0..=255u8 {
        if f & 0xF8 != 0 {
            v.push(X::Flags(f));
        }
    }
    for t in 5..=255u8 {
        v.push(X::Type(t));
    }
    v
}

fn build_x(p: &P) -> RawMsg {
    let mut m = RawMsg::signal(71, "/c13/x", "org.c13.X", "Strange").big(p.big).body(&[Val::str("x-body"), Val::U32(13)]);
    match p.x {
        X::Field(code, kind) => {
            let v = field_val(kind);
            if p.field_first {
                m.fields.insert(0, (code, v));
            } else {
                m.fields.push((code, v));
            }
        }
        X::Flags(f) => m.flags = f,
        X::Type(t) => m.mtype = t,
    }
    m
}

#[derive(Debug, Clone, PartialEq)]
enum Seen {
    Msg { mtype: u8, member: String, path: String, iface: String, flags: u8, body0: String },
    Reply,
    Err(String),
}

impl Scenario for C13Scn {
    fn id(&self) -> &'static str {
        "C13"
    }
    fn rule(&self) -> &'static str {
        "the peer sends S1, X, S2 and the reply to a pending call, where X is valid except for one of: an extra header field with code 10..255 carrying a variant of one of 8 value types (first or last in the fields array), a flags byte with unknown bits (alone or combined with known ones), a message type code 5..255; both endiannesses; seeded read splits and schedules; a second call is made after S2; quick samples X, thorough enumerates all 2467 of them; oracle: stream yields S1, X (unless unknown type) with its known fields intact and only known flags reported, S2, no error item, both calls succeed; non-trivial = X was completely delivered before S2 (always the case here: one stream), distinct = distinct (X, endianness, position, schedule)"
    }
    fn runs(&self, tier: Tier) -> u64 {
        match tier {
            Tier::Quick => 8_000,
            Tier::Thorough => enumerate_x().len() as u64 * 4 * 8,
        }
    }
    fn real(&self) -> Vec<&'static str> {
        vec!["ReadHalf::receive_message", "PrimaryHeader / Fields deserialization", "Message::from_raw_parts", "socket reader", "MessageStream", "PendingMethodCall"]
    }
    fn stubbed(&self) -> Vec<&'static str> {
        vec!["OS socket", "executor", "clock", "peer (scripted, independent marshaller able to emit unknown codes)"]
    }

    fn generate(&self, rng: &mut Rng, idx: u64, tier: Tier) -> (SchedCfg, Value) {
        let all = enumerate_x();
        let x = match tier {
            Tier::Thorough => all[(idx as usize / 4) % all.len()],
            Tier::Quick => match rng.below(3) {
                0 => X::Field(rng.range(10, 255) as u8, rng.below(N_KINDS as u64) as u8),
                1 => loop {
                    let f = rng.below(256) as u8;
                    if f & 0xF8 != 0 {
                        break X::Flags(f);
                    }
                },
                _ => X::Type(rng.range(5, 255) as u8),
            },
        };
        let (big, field_first) = match tier {
            Tier::Thorough => (idx % 2 == 1, (idx / 2) % 2 == 1),
            Tier::Quick => (rng.chance(1, 3), rng.chance(1, 2)),
        };
        let sched = SchedCfg::generate(rng, &["socket reader", "consumer"]);
        (sched, j(&P { x, big, field_first, link: gen_read_cfg(rng) }))
    }

    fn shrink(&self, body: &Value) -> Vec<Value> {
        let p: P = unj(body);
        let mut out = vec![];
        for f in [|q: &mut P| q.link = LinkCfg::default(), |q: &mut P| q.big = false, |q: &mut P| q.field_first = false] {
            let mut q = p.clone();
            f(&mut q);
            if q != p {
                out.push(j(&q));
            }
        }
        out
    }

    fn run(&self, w: &World, body: &Value) -> Verdict {
        let p: P = unj(body);
        let (sock, raw) = sim_pair(w, p.link.clone(), LinkCfg::default(), SockCfg::default());
        let seen = shared(Vec::<Seen>::new());
        let calls = shared((None::<Result<(), String>>, None::<Result<(), String>>));
        let failed = shared(None::<String>);

        let (s2, c2, f2) = (seen.clone(), calls.clone(), failed.clone());
        let ww = w.clone();
        let app = w.spawn("app", async move {
            let conn = match build_authed(sock).await {
                Ok(c) => c,
                Err(e) => {
                    *f2.lock().unwrap() = Some(e.to_string());
                    return vec![];
                }
            };
            let mut stream = MessageStream::from(&conn);
            let saw_s2 = Arc::new(Event::new());
            let flag = shared(false);
            let mut tasks = vec![];
            {
                let (s2, saw_s2, flag) = (s2.clone(), saw_s2.clone(), flag.clone());
                tasks.push(ww.spawn("consumer", async move {
                    while let Some(item) = stream.next().await {
                        let rec = match item {
                            Err(e) => Seen::Err(e.to_string()),
                            Ok(m) => {
                                let h = m.header();
                                if h.reply_serial().is_some() {
                                    Seen::Reply
                                } else {
                                    Seen::Msg {
                                        mtype: m.message_type() as u8,
                                        member: h.member().map(|x| x.to_string()).unwrap_or_default(),
                                        path: h.path().map(|x| x.to_string()).unwrap_or_default(),
                                        iface: h.interface().map(|x| x.to_string()).unwrap_or_default(),
                                        flags: m.primary_header().flags().bits(),
                                        body0: m.body().deserialize::<(String, u32)>().map(|b| b.0).unwrap_or_default(),
                                    }
                                }
                            }
                        };
                        let is_s2 = matches!(&rec, Seen::Msg { member, .. } if member == "S2");
                        s2.lock().unwrap().push(rec);
                        if is_s2 {
                            *flag.lock().unwrap() = true;
                            saw_s2.notify(usize::MAX);
                        }
                    }
                }));
            }
            {
                let (conn, c2) = (conn.clone(), c2.clone());
                tasks.push(ww.spawn("caller-1", async move {
                    let r = conn.call_method(None::<&str>, "/c13/peer", Some("org.c13.Peer"), "First", &()).await;
                    c2.lock().unwrap().0 = Some(r.map(|_| ()).map_err(|e| e.to_string()));
                }));
            }
            {
                let (conn, c2) = (conn.clone(), c2.clone());
                tasks.push(ww.spawn("caller-2", async move {
                    loop {
                        let l = saw_s2.listen();
                        if *flag.lock().unwrap() {
                            break;
                        }
                        l.await;
                    }
                    let r = conn.call_method(None::<&str>, "/c13/peer", Some("org.c13.Peer"), "Second", &()).await;
                    c2.lock().unwrap().1 = Some(r.map(|_| ()).map_err(|e| e.to_string()));
                }));
            }
            tasks
        });

        let p2 = p.clone();
        let raw2 = raw.clone();
        let peer = w.spawn("peer", async move {
            let mut r = PeerReader::new(raw2.clone());
            loop {
                let m = match r.msg().await {
                    Ok(Some(m)) => m,
                    _ => break,
                };
                if m.mtype != T_CALL {
                    continue;
                }
                match m.member() {
                    Some("First") => {
                        let mut out = RawMsg::signal(70, "/c13/s", "org.c13.S", "S1").big(p2.big).body(&[Val::str("one"), Val::U32(1)]).encode();
                        out.extend(build_x(&p2).encode());
                        out.extend(RawMsg::signal(72, "/c13/s", "org.c13.S", "S2").body(&[Val::str("two"), Val::U32(2)]).encode());
                        out.extend(RawMsg::ret(73, m.serial).encode());
                        raw2.write(&out);
                    }
                    Some("Second") => raw2.write(&RawMsg::ret(74, m.serial).encode()),
                    _ => {}
                }
            }
        });

        w.run();
        let seen_v = seen.lock().unwrap().clone();
        let (c1, c2r) = calls.lock().unwrap().clone();
        drop(app);
        drop(peer);
        raw.tx.drop_wakers();
        raw.rx.drop_wakers();
        if let Some(e) = failed.lock().unwrap().take() {
            return Verdict::harness(format!("build failed: {e}"));
        }

        let kind = match p.x {
            X::Field(..) => "unknown-field",
            X::Flags(_) => "unknown-flag",
            X::Type(_) => "unknown-type",
        };
        if let Some(Seen::Err(e)) = seen_v.iter().find(|s| matches!(s, Seen::Err(_))) {
            return Verdict::fail("error-item", format!("{kind}-kills-stream"), format!("X = {:?} made the stream yield an error: {e}; items {seen_v:?}", p.x));
        }
        let msgs: Vec<&Seen> = seen_v.iter().filter(|s| matches!(s, Seen::Msg { .. })).collect();
        let members: Vec<String> = msgs
            .iter()
            .map(|s| match s {
                Seen::Msg { member, .. } => member.clone(),
                _ => String::new(),
            })
            .collect();
        let want: Vec<&str> = if matches!(p.x, X::Type(_)) { vec!["S1", "S2"] } else { vec!["S1", "Strange", "S2"] };
        if members != want {
            return Verdict::fail("sequence", format!("{kind}-sequence"), format!("X = {:?}: stream yielded {members:?}, expected {want:?}", p.x));
        }
        if !matches!(p.x, X::Type(_)) {
            if let Seen::Msg { mtype, path, iface, flags, body0, .. } = msgs[1] {
                if *mtype != T_SIGNAL || path != "/c13/x" || iface != "org.c13.X" || body0 != "x-body" {
                    return Verdict::fail("fields", format!("{kind}-known-fields-damaged"), format!("X arrived as type {mtype} path {path} iface {iface} body {body0:?}"));
                }
                let want_flags = match p.x {
                    X::Flags(f) => f & 0x07,
                    _ => 0,
                };
                if *flags != want_flags {
                    return Verdict::fail("flags", "reported-flags", format!("X sent with flags {:#x}; reported {flags:#x}, expected only the known bits {want_flags:#x}", match p.x { X::Flags(f) => f, _ => 0 }));
                }
            }
        }
        for (n, c) in [("first", &c1), ("second", &c2r)] {
            match c {
                Some(Ok(())) => {}
                other => return Verdict::fail("call", format!("{kind}-{n}-call"), format!("the {n} call ended with {other:?} (X = {:?})", p.x)),
            }
        }
        w.count(match p.x {
            X::Field(..) => "probe.unknown_field_tolerated",
            X::Flags(_) => "probe.unknown_flag_tolerated",
            X::Type(_) => "probe.unknown_type_skipped",
        });
        Verdict::ok(true)
    }
}
