//! C31 — a proxy's property cache reflects the received history.
use std::collections::BTreeMap;

use futures_lite::StreamExt;
use serde::{Deserialize, Serialize};
use serde_json::Value;
use zbus::{Connection, Proxy};

use super::common::*;
use crate::{
    framework::{Scenario, Tier, Verdict},
    kernel::{SchedCfg, World},
    net::{sim_pair, LinkCfg, SockCfg},
    peers::PeerReader,
    rng::Rng,
    wire::{RawMsg, Val, T_CALL},
};

pub struct C31Scn;
pub static C31: C31Scn = C31Scn;

const PROPS: &[&str] = &["A", "B", "C", "D"];
const IFACE: &str = "org.c31.I";
const OTHER_IFACE: &str = "org.c31.Other";
const SRV: &str = ":1.5";

#[derive(Clone, Debug, Serialize, Deserialize, PartialEq)]
struct Sig {
    own_iface: bool,
    changed: Vec<(u8, u32)>,
    invalidated: Vec<u8>,
}

#[derive(Clone, Debug, Serialize, Deserialize, PartialEq)]
struct P {
    /// CacheProperties::Yes (build waits for the cache) or Lazily (first access starts it)
    upfront: bool,
    uncached: Vec<u8>,
    snapshot: Vec<(u8, u32)>,
    /// signals sent between receiving GetAll and replying to it
    before: Vec<Sig>,
    /// signals sent in the same write right after the reply
    after: Vec<Sig>,
    /// later rounds, one write each, quiescence in between
    later: Vec<Vec<Sig>>,
    reply_delay_us: u32,
    /// what `Get` answers per property
    get_values: Vec<u32>,
    link: LinkCfg,
}

fn sig_bytes(serial: u32, s: &Sig) -> Vec<u8> {
    let changed = Val::dict_sv(s.changed.iter().map(|(p, v)| (PROPS[*p as usize].to_string(), Val::U32(*v))).collect());
    let inval = Val::Array("s".into(), s.invalidated.iter().map(|p| Val::str(PROPS[*p as usize])).collect());
    RawMsg::signal(serial, "/c31", "org.freedesktop.DBus.Properties", "PropertiesChanged")
        .sender(SRV)
        .body(&[Val::str(if s.own_iface { IFACE } else { OTHER_IFACE }), changed, inval])
        .encode()
}

fn apply(model: &mut BTreeMap<u8, Option<u32>>, s: &Sig, uncached: &[u8]) {
    if !s.own_iface {
        return;
    }
    for p in &s.invalidated {
        if uncached.contains(p) {
            continue;
        }
        if let Some(e) = model.get_mut(p) {
            *e = None;
        }
    }
    for (p, v) in &s.changed {
        if uncached.contains(p) {
            continue;
        }
        model.insert(*p, Some(*v));
    }
}

impl Scenario for C31Scn {
    fn id(&self) -> &'static str {
        "C31"
    }
    fn rule(&self) -> &'static str {
        "a real client holds a proxy (cache Yes or Lazily, 0..2 properties marked uncached) to a scripted server object that answers GetAll after a seeded delay and sends PropertiesChanged signals (changed values and invalidations, own and foreign interface, cached and uncached names) before the reply, in the same write right after it, and in later rounds; a property-change stream is open on one property; oracle = fold over the wire order of what was received: the GetAll snapshot, then every later PropertiesChanged of the proxy's interface (uncached names ignored, everything before the snapshot ignored); at every quiescent point cached_property == model, get_property == model value or the server's Get answer, the change stream's last value == the latest; non-trivial = at least one signal for the proxy's interface travelled between the GetAll call and its reply or in the same write as the reply"
    }
    fn runs(&self, tier: Tier) -> u64 {
        match tier {
            Tier::Quick => 5_000,
            Tier::Thorough => 300_000,
        }
    }
    fn real(&self) -> Vec<&'static str> {
        vec!["proxy::PropertiesCache (init, keep_updated, update_cache)", "ordered join of the GetAll reply with the PropertiesChanged stream", "Proxy::cached_property / get_property / receive_property_changed", "PropertiesProxy signal stream"]
    }
    fn stubbed(&self) -> Vec<&'static str> {
        vec!["server object (scripted raw peer)", "OS socket", "executor", "clock"]
    }

    fn generate(&self, rng: &mut Rng, _idx: u64, _tier: Tier) -> (SchedCfg, Value) {
        let gen_sig = |rng: &mut Rng| Sig {
            own_iface: rng.chance(4, 5),
            changed: (0..rng.below(3)).map(|_| (rng.below(4) as u8, rng.range(1, 1000) as u32)).collect(),
            invalidated: (0..rng.below(2)).map(|_| rng.below(3) as u8).collect(),
        };
        let mut uncached: Vec<u8> = vec![];
        let mut snapshot: Vec<(u8, u32)> = vec![];
        for p in 0..4u8 {
            if rng.chance(1, 5) {
                uncached.push(p);
            }
            if rng.chance(3, 4) {
                snapshot.push((p, rng.range(1, 1000) as u32));
            }
        }
        let before = (0..rng.below(3)).map(|_| gen_sig(rng)).collect();
        let after = (0..rng.below(3)).map(|_| gen_sig(rng)).collect();
        let later = (0..rng.below(3)).map(|_| (0..rng.range(1, 3)).map(|_| gen_sig(rng)).collect()).collect();
        let sched = SchedCfg::generate(rng, &["proxy caching", "socket reader", "watcher"]);
        (
            sched,
            j(&P {
                upfront: rng.chance(1, 2),
                uncached,
                snapshot,
                before,
                after,
                later,
                reply_delay_us: *rng.pick(&[0u32, 0, 1, 100, 5000]),
                get_values: (0..4).map(|_| rng.range(2000, 3000) as u32).collect(),
                link: gen_read_cfg(rng),
            }),
        )
    }

    fn shrink(&self, body: &Value) -> Vec<Value> {
        let p: P = unj(body);
        let mut out = vec![];
        for v in drop_candidates(&p.before) {
            let mut q = p.clone();
            q.before = v;
            out.push(j(&q));
        }
        for v in drop_candidates(&p.after) {
            let mut q = p.clone();
            q.after = v;
            out.push(j(&q));
        }
        for v in drop_candidates(&p.later) {
            let mut q = p.clone();
            q.later = v;
            out.push(j(&q));
        }
        for v in drop_candidates(&p.snapshot) {
            let mut q = p.clone();
            q.snapshot = v;
            out.push(j(&q));
        }
        for f in [|q: &mut P| q.link = LinkCfg::default(), |q: &mut P| q.reply_delay_us = 0, |q: &mut P| q.uncached.clear(), |q: &mut P| q.upfront = true] {
            let mut q = p.clone();
            f(&mut q);
            if q != p {
                out.push(j(&q));
            }
        }
        out
    }

    fn run(&self, w: &World, body: &Value) -> Verdict {
        let p: P = unj(body);
        let (sock, raw) = sim_pair(w, p.link.clone(), LinkCfg::default(), SockCfg::default());

        // ---- scripted server object ----
        let (p2, raw2, ww) = (p.clone(), raw.clone(), w.clone());
        let getall_seen = shared(0u32);
        let gs = getall_seen.clone();
        let server = w.spawn("server", async move {
            let mut r = PeerReader::new(raw2.clone());
            let mut serial = 500u32;
            loop {
                let m = match r.msg().await {
                    Ok(Some(m)) => m,
                    _ => break,
                };
                if m.mtype != T_CALL {
                    continue;
                }
                let args = m.body_vals().unwrap_or_default();
                match m.member() {
                    Some("GetAll") => {
                        *gs.lock().unwrap() += 1;
                        let mut out = vec![];
                        for s in &p2.before {
                            serial += 1;
                            out.extend(sig_bytes(serial, s));
                        }
                        if !out.is_empty() {
                            raw2.write(&out);
                        }
                        if p2.reply_delay_us > 0 {
                            ww.sleep_ns(p2.reply_delay_us as u64 * 1000).await;
                        }
                        serial += 1;
                        let snap = Val::dict_sv(p2.snapshot.iter().map(|(k, v)| (PROPS[*k as usize].to_string(), Val::U32(*v))).collect());
                        let mut out = RawMsg::ret(serial, m.serial).sender(SRV).body(&[snap]).encode();
                        for s in &p2.after {
                            serial += 1;
                            out.extend(sig_bytes(serial, s));
                        }
                        raw2.write(&out);
                    }
                    Some("Get") => {
                        let name = args.get(1).and_then(|v| v.as_str()).unwrap_or("");
                        let idx = PROPS.iter().position(|x| *x == name).unwrap_or(0);
                        serial += 1;
                        raw2.write(&RawMsg::ret(serial, m.serial).sender(SRV).body(&[Val::Variant(Box::new(Val::U32(p2.get_values[idx])))]).encode());
                    }
                    _ => {
                        serial += 1;
                        raw2.write(&RawMsg::error(serial, m.serial, "org.freedesktop.DBus.Error.UnknownMethod").sender(SRV).body(&[Val::str("no")]).encode());
                    }
                }
            }
        });

        // ---- client ----
        let slot = shared(None::<Result<(Connection, Proxy<'static>), String>>);
        let (s2, upfront, uncached) = (slot.clone(), p.upfront, p.uncached.clone());
        let watched = shared(Vec::<Result<u32, String>>::new());
        let (wt, ww) = (watched.clone(), w.clone());
        let client = w.spawn("client", async move {
            let r: zbus::Result<(Connection, Proxy<'static>)> = async {
                let conn = build_authed(sock).await?;
                let unc: Vec<&str> = uncached.iter().map(|i| PROPS[*i as usize]).collect();
                let px: Proxy<'static> = zbus::proxy::Builder::new(&conn)
                    .destination(SRV)?
                    .path("/c31")?
                    .interface(IFACE)?
                    .cache_properties(if upfront { zbus::proxy::CacheProperties::Yes } else { zbus::proxy::CacheProperties::Lazily })
                    .uncached_properties(&unc)
                    .build()
                    .await?;
                if !upfront {
                    // first access starts the caching; wait until it is ready
                    let _ = px.get_property::<u32>("A").await;
                }
                Ok((conn, px))
            }
            .await;
            let ok = r.is_ok();
            let px = r.as_ref().ok().map(|x| x.1.clone());
            *s2.lock().unwrap() = Some(r.map_err(|e| e.to_string()));
            if ok {
                // a change stream on property D (never invalidated by the script: reading an
                // invalidated value through the stream would itself refill the cache)
                let px = px.unwrap();
                let mut st = px.receive_property_changed::<u32>("D").await;
                let inner = ww.spawn("watcher", async move {
                    while let Some(ch) = st.next().await {
                        let v = ch.get().await.map_err(|e| e.to_string());
                        wt.lock().unwrap().push(v);
                    }
                });
                inner.await;
            }
        });
        w.run();
        let (conn, px) = match slot.lock().unwrap().take() {
            Some(Ok(x)) => x,
            Some(Err(e)) => {
                drop(client);
                drop(server);
                return Verdict::fail("setup", "proxy-build-failed", format!("building the proxy / first access failed against a well-behaved server: {e}"));
            }
            None => {
                drop(client);
                drop(server);
                return Verdict::fail("hang", "cache-never-ready", "the proxy cache never became ready although GetAll was answered".to_string());
            }
        };

        // ---- model: fold over the wire order ----
        let mut model: BTreeMap<u8, Option<u32>> = BTreeMap::new();
        for (k, v) in &p.snapshot {
            if !p.uncached.contains(k) {
                model.insert(*k, Some(*v));
            }
        }
        for s in &p.after {
            apply(&mut model, s, &p.uncached);
        }
        let mut verdict: Option<Verdict> = None;
        let mut rounds: Vec<Option<&Vec<Sig>>> = vec![None];
        rounds.extend(p.later.iter().map(Some));
        let mut serial = 9000u32;
        'outer: for (ri, round) in rounds.iter().enumerate() {
            if let Some(sigs) = round {
                let mut out = vec![];
                for s in sigs.iter() {
                    serial += 1;
                    out.extend(sig_bytes(serial, s));
                    apply(&mut model, s, &p.uncached);
                }
                raw.write(&out);
                w.run();
            }
            // cached_property vs model
            for (i, name) in PROPS.iter().enumerate() {
                let want = model.get(&(i as u8)).copied().flatten();
                let got = px.cached_property::<u32>(name);
                match got {
                    Ok(g) if g == want => {}
                    other => {
                        let kind = if p.uncached.contains(&(i as u8)) {
                            "uncached-property-cached"
                        } else if want.is_none() {
                            "stale-value-after-invalidation-or-absence"
                        } else if ri == 0 {
                            "wrong-value-after-snapshot"
                        } else {
                            "wrong-value-after-later-signal"
                        };
                        verdict = Some(Verdict::fail("cache", kind, format!("checkpoint {ri}: cached_property({name}) = {other:?}, the received history implies {want:?}; model {model:?}")));
                        break 'outer;
                    }
                }
            }
            // get_property
            let res = shared(Vec::<(usize, Result<u32, String>)>::new());
            let (r2, px2) = (res.clone(), px.clone());
            let t = w.spawn("getter", async move {
                for (i, name) in PROPS.iter().enumerate() {
                    let v = px2.get_property::<u32>(name).await.map_err(|e| e.to_string());
                    r2.lock().unwrap().push((i, v));
                }
            });
            w.run();
            drop(t);
            let got = res.lock().unwrap().clone();
            if got.len() != PROPS.len() {
                verdict = Some(Verdict::fail("hang", "get-property-hangs", format!("checkpoint {ri}: get_property did not return for every property: {got:?}")));
                break;
            }
            for (i, v) in got {
                let want = model.get(&(i as u8)).copied().flatten().unwrap_or(p.get_values[i]);
                if v != Ok(want) {
                    verdict = Some(Verdict::fail("get", "get-property-wrong", format!("checkpoint {ri}: get_property({}) = {v:?}, expected {want}", PROPS[i])));
                    break 'outer;
                }
            }
        }
        // change stream: the last reported value is the latest
        if verdict.is_none() {
            let wv = watched.lock().unwrap().clone();
            if let Some(last) = wv.last() {
                let want = model.get(&3).copied().flatten().unwrap_or(p.get_values[3]);
                if *last != Ok(want) {
                    verdict = Some(Verdict::fail("stream", "change-stream-not-latest", format!("the change stream of D last reported {last:?}, the latest value is {want}; all items {wv:?}")));
                }
            }
        }
        let getalls = *getall_seen.lock().unwrap();
        drop(client);
        drop(px);
        drop(conn);
        drop(server);
        raw.tx.drop_wakers();
        raw.rx.drop_wakers();
        if verdict.is_none() && getalls != 1 {
            return Verdict::fail("traffic", "getall-count", format!("{getalls} GetAll calls were made, one is expected"));
        }
        let around = p.before.iter().chain(p.after.iter()).any(|s| s.own_iface && (!s.changed.is_empty() || !s.invalidated.is_empty()));
        if around {
            w.count("probe.signal_around_getall_reply");
        }
        verdict.unwrap_or_else(|| Verdict::ok(around))
    }
}
