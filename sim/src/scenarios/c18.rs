//! C18 — concurrent sends never interleave on the wire.
use serde::{Deserialize, Serialize};
use serde_json::Value;
use zbus::{zvariant, Message};

use super::common::*;
use crate::{
    framework::{Scenario, Tier, Verdict},
    kernel::{SchedCfg, World},
    net::{make_fd, sim_pair, ErrKind, LinkCfg, SockCfg},
    rng::Rng,
    wire::{split_frames, RawMsg, Val},
};

pub struct C18Scn;
pub static C18: C18Scn = C18Scn;

#[derive(Clone, Copy, Debug, Serialize, Deserialize, PartialEq)]
enum Api {
    Send,
    EmitSignal,
    CallNoReply,
    Reply,
    ReplyError,
}

#[derive(Clone, Debug, Serialize, Deserialize, PartialEq)]
struct M {
    api: Api,
    len: u16,
    nfds: u8,
    /// yield before sending
    pause: bool,
}

#[derive(Clone, Debug, Serialize, Deserialize, PartialEq)]
struct P {
    senders: Vec<Vec<M>>,
    link: LinkCfg,
    /// the peer drains slowly (only matters with a bounded send buffer)
    drain_every_ns: u64,
    /// per sender: cancel the task at its n-th await point that returns Pending (fault kind `cancel_task`)
    #[serde(default)]
    cancel: Vec<Option<u32>>,
}

fn payload(sender: usize, idx: usize, len: u16) -> Vec<u8> {
    (0..len as usize).map(|k| (sender * 31 + idx * 7 + k) as u8).collect()
}

fn tags(sender: usize, idx: usize, n: u8) -> Vec<u64> {
    (0..n as u64).map(|k| 0xC18_0000 + (sender as u64) * 256 + (idx as u64) * 8 + k).collect()
}

impl Scenario for C18Scn {
    fn id(&self) -> &'static str {
        "C18"
    }
    fn rule(&self) -> &'static str {
        "plan = 2..6 sender tasks x 1..5 messages each (send / emit_signal / call_noreply / reply / reply_error, bodies 0..4 KiB tagged (sender, index), 0..3 fds) over a transport with seeded partial writes, write stalls (Pending between the pieces of one message), bounded send buffer with a slow reader, task stalls, lock-fairness latency; separate configurations: an injected write error; one or two sender tasks cancelled at a seeded await point (their in-flight message may be absent or whole, never partial; everything else as without the fault); oracle = the captured byte stream parses with an independent framer into whole messages, each equal to one sent message, fds attached at frame starts only, per-sender order kept; non-trivial = at least one message was written in more than one piece (partial write, stall or back-pressure in the middle of it) while more than one sender existed"
    }
    fn runs(&self, tier: Tier) -> u64 {
        match tier {
            Tier::Quick => 12_000,
            Tier::Thorough => 800_000,
        }
    }
    fn real(&self) -> Vec<&'static str> {
        vec!["Connection::send / emit_signal / reply / reply_error / call_method_raw(no reply)", "socket_write async mutex", "WriteHalf::send_message loop", "message builder"]
    }
    fn stubbed(&self) -> Vec<&'static str> {
        vec!["OS socket (SimSocket with partial writes, stalls, bounded buffer, write errors)", "executor (seeded scheduler)", "clock", "peer (byte/fd capture + independent framer)"]
    }

    fn generate(&self, rng: &mut Rng, _idx: u64, _tier: Tier) -> (SchedCfg, Value) {
        let ns = rng.range(2, 6) as usize;
        let mut senders = vec![];
        for _ in 0..ns {
            let nm = rng.range(1, 5);
            let mut v = vec![];
            for _ in 0..nm {
                let len = match rng.below(5) {
                    0 => 0,
                    1..=2 => rng.range(1, 100) as u16,
                    3 => rng.range(100, 1000) as u16,
                    _ => rng.range(1000, 4096) as u16,
                };
                v.push(M {
                    api: *rng.pick(&[Api::Send, Api::Send, Api::EmitSignal, Api::CallNoReply, Api::Reply, Api::ReplyError]),
                    len,
                    nfds: if rng.chance(1, 4) { rng.range(1, 3) as u8 } else { 0 },
                    pause: rng.chance(1, 3),
                });
            }
            senders.push(v);
        }
        let mut link = gen_write_cfg(rng);
        if rng.chance(1, 4) {
            link.capacity = rng.range(16, 600) as usize;
        }
        if rng.chance(1, 6) {
            link.fail_write_call = Some((rng.range(0, 12), ErrKind::Pipe));
        }
        let drain_every_ns = *rng.pick(&[0u64, 1_000, 700_000]);
        let sched = SchedCfg::generate(rng, &["sender-0", "sender-1", "sender"]);
        // separate configuration: one or two senders are cancelled at a seeded await point
        let mut cancel = vec![None; ns];
        if link.fail_write_call.is_none() && rng.chance(1, 4) {
            for _ in 0..rng.range(1, 2) {
                cancel[rng.usize(ns)] = Some(rng.below(12) as u32);
            }
        }
        (sched, j(&P { senders, link, drain_every_ns, cancel }))
    }

    fn shrink(&self, body: &Value) -> Vec<Value> {
        let p: P = unj(body);
        let mut out = vec![];
        let zipped: Vec<(Vec<M>, Option<u32>)> = p.senders.iter().cloned().enumerate().map(|(i, s)| (s, p.cancel.get(i).copied().flatten())).collect();
        for s in drop_candidates(&zipped) {
            if s.len() >= 1 {
                let mut q = p.clone();
                q.senders = s.iter().map(|x| x.0.clone()).collect();
                q.cancel = s.iter().map(|x| x.1).collect();
                out.push(j(&q));
            }
        }
        for (i, s) in p.senders.iter().enumerate() {
            for ms in drop_candidates(s) {
                if !ms.is_empty() {
                    let mut q = p.clone();
                    q.senders[i] = ms;
                    out.push(j(&q));
                }
            }
            for (k, m) in s.iter().enumerate() {
                if m.len > 0 || m.nfds > 0 || m.pause || m.api != Api::Send {
                    let mut q = p.clone();
                    q.senders[i][k] = M { api: Api::Send, len: m.len / 2, nfds: m.nfds.saturating_sub(1), pause: false };
                    out.push(j(&q));
                }
            }
        }
        for (i, c) in p.cancel.iter().enumerate() {
            if c.is_some() {
                let mut q = p.clone();
                q.cancel[i] = None;
                out.push(j(&q));
            }
        }
        for f in [
            |q: &mut P| q.link.capacity = 0,
            |q: &mut P| q.link.write_stalls = false,
            |q: &mut P| q.link.latency_steps = 0,
            |q: &mut P| q.drain_every_ns = 0,
        ] {
            let mut q = p.clone();
            f(&mut q);
            if q != p {
                out.push(j(&q));
            }
        }
        out
    }

    fn run(&self, w: &World, body: &Value) -> Verdict {
        let p: P = unj(body);
        let (sock, raw) = sim_pair(w, LinkCfg::default(), p.link.clone(), SockCfg::default());
        let outlink = raw.rx.clone();
        // result per (sender, index): None = not finished, Some(ok)
        let results = shared(vec![vec![None::<bool>; 8]; p.senders.len()]);
        let built = shared(None::<Result<(), String>>);

        let p2 = p.clone();
        let res2 = results.clone();
        let b2 = built.clone();
        let ww = w.clone();
        let app = w.spawn("app", async move {
            let conn = match build_authed(sock).await {
                Ok(c) => c,
                Err(e) => {
                    *b2.lock().unwrap() = Some(Err(e.to_string()));
                    return vec![];
                }
            };
            *b2.lock().unwrap() = Some(Ok(()));
            // a header to reply to
            let call = Message::method_call("/c18", "Ping").unwrap().interface("org.c18.I").unwrap().sender(":1.99").unwrap().build(&()).unwrap();
            let mut tasks = vec![];
            for (si, msgs) in p2.senders.iter().enumerate() {
                let conn = conn.clone();
                let msgs = msgs.clone();
                let res = res2.clone();
                let call = call.clone();
                let w3 = ww.clone();
                let cancel_at = p2.cancel.get(si).copied().flatten();
                tasks.push(ww.spawn(&format!("sender-{si}"), cancel_after(&ww, cancel_at, async move {
                    for (mi, m) in msgs.iter().enumerate() {
                        if m.pause {
                            w3.yield_now().await;
                        }
                        let fds: Vec<zvariant::Fd<'static>> = tags(si, mi, m.nfds).into_iter().map(|t| zvariant::Fd::from(make_fd(t))).collect();
                        let bodyv = (si as u32, mi as u32, payload(si, mi, m.len), fds);
                        let r = match m.api {
                            Api::Send => {
                                let msg = Message::signal("/c18", "org.c18.I", "S").unwrap().build(&bodyv).unwrap();
                                conn.send(&msg).await
                            }
                            Api::EmitSignal => conn.emit_signal(None::<&str>, "/c18", "org.c18.I", "E", &bodyv).await,
                            Api::CallNoReply => {
                                let px = zbus::proxy::Builder::<zbus::Proxy<'_>>::new(&conn)
                                    .destination("org.c18.Dest")
                                    .unwrap()
                                    .path("/c18")
                                    .unwrap()
                                    .interface("org.c18.I")
                                    .unwrap()
                                    .cache_properties(zbus::proxy::CacheProperties::No)
                                    .build()
                                    .await;
                                match px {
                                    Ok(px) => px.call_noreply("N", &bodyv).await,
                                    Err(e) => Err(e),
                                }
                            }
                            Api::Reply => conn.reply(&call.header(), &bodyv).await,
                            Api::ReplyError => conn.reply_error(&call.header(), "org.c18.Error.X", &bodyv).await,
                        };
                        res.lock().unwrap()[si][mi] = Some(r.is_ok());
                    }
                })));
            }
            tasks
        });

        // slow drain (only relevant with bounded buffer)
        let raw2 = raw.clone();
        let ww = w.clone();
        let every = p.drain_every_ns;
        let drain = w.spawn("peer-drain", async move {
            loop {
                match raw2.read().await {
                    Ok((b, _)) if b.is_empty() => break,
                    Err(_) => break,
                    _ => {}
                }
                if every > 0 {
                    ww.sleep_ns(every).await;
                }
            }
        });

        w.run();

        let st = outlink.st.lock().unwrap();
        let captured = st.captured.clone();
        let cfds = st.captured_fds.clone();
        let sizes = st.write_sizes.clone();
        drop(st);
        let res = results.lock().unwrap().clone();
        drop(app);
        drop(drain);
        raw.tx.drop_wakers();
        raw.rx.drop_wakers();

        match built.lock().unwrap().take() {
            Some(Ok(())) => {}
            Some(Err(e)) => return Verdict::harness(format!("build failed: {e}")),
            None => return Verdict::harness("app did not start"),
        }
        let write_fault = p.link.fail_write_call.is_some();
        let cancelled = |si: usize| p.cancel.get(si).copied().flatten().is_some();
        let any_cancel = (0..p.senders.len()).any(cancelled);
        // with a cancelled sender the framing rules carry their own fingerprints
        let fr = |d: &str| if any_cancel { format!("after-cancelled-send-{d}") } else { d.to_string() };

        // ---- oracle ----
        let (frames, rest) = match split_frames(&captured) {
            Ok(x) => x,
            Err(e) => return Verdict::fail("frame", fr("unparseable-stream"), format!("captured stream does not frame: {e}")),
        };
        if !rest.is_empty() && !write_fault {
            return Verdict::fail("frame", fr("trailing-partial-frame"), format!("{} bytes of an incomplete frame at the end of the stream", rest.len()));
        }
        let mut last_idx: Vec<i64> = vec![-1; p.senders.len()];
        let mut seen = vec![vec![false; 8]; p.senders.len()];
        let mut off = 0u64;
        let mut starts = vec![];
        for f in &frames {
            starts.push(off);
            let m = match RawMsg::decode(f) {
                Ok(m) => m,
                Err(e) => return Verdict::fail("frame", fr("undecodable-frame"), format!("frame at {off}: {e}")),
            };
            let vals = match m.body_vals() {
                Ok(v) => v,
                Err(e) => return Verdict::fail("frame", fr("undecodable-body"), format!("frame at {off} (sig {}): {e}", m.signature())),
            };
            let (si, mi) = match (vals.first(), vals.get(1)) {
                (Some(Val::U32(a)), Some(Val::U32(b))) => (*a as usize, *b as usize),
                _ => return Verdict::fail("frame", fr("foreign-message"), format!("frame at {off} is not one of the sent messages: {m:?}")),
            };
            if si >= p.senders.len() || mi >= p.senders[si].len() {
                return Verdict::fail("frame", fr("foreign-message"), format!("frame at {off} has tag ({si},{mi})"));
            }
            let spec = &p.senders[si][mi];
            let want_payload: Vec<Val> = payload(si, mi, spec.len).into_iter().map(Val::Byte).collect();
            if vals.get(2) != Some(&Val::Array("y".into(), want_payload)) {
                return Verdict::fail("bytes", "payload-mixed", format!("message ({si},{mi}) arrived with a different payload"));
            }
            if m.unix_fds() != spec.nfds as u32 {
                return Verdict::fail("fds", "header-count", format!("message ({si},{mi}) declares {} fds, sent with {}", m.unix_fds(), spec.nfds));
            }
            if seen[si][mi] {
                return Verdict::fail("dup", "sent-twice", format!("message ({si},{mi}) appears twice on the wire"));
            }
            seen[si][mi] = true;
            if (mi as i64) < last_idx[si] {
                return Verdict::fail("order", "per-sender-order", format!("sender {si}: message {mi} after {}", last_idx[si]));
            }
            last_idx[si] = mi as i64;
            // fds: exactly one group at this frame's first byte
            let want_tags = tags(si, mi, spec.nfds);
            let groups: Vec<&(u64, Vec<u64>)> = cfds.iter().filter(|(o, _)| *o >= off && *o < off + f.len() as u64).collect();
            if spec.nfds == 0 {
                if !groups.is_empty() {
                    return Verdict::fail("fds", "stray-fds", format!("fds travelled inside fd-less message ({si},{mi})"));
                }
            } else if groups.len() != 1 || groups[0].0 != off || groups[0].1 != want_tags {
                return Verdict::fail(
                    "fds",
                    "not-with-first-bytes",
                    format!("message ({si},{mi}) at offset {off}: fd groups {:x?}, want one group {want_tags:x?} at the first byte", groups),
                );
            }
            off += f.len() as u64;
        }
        // everything whose send returned Ok is on the wire, whole
        for (si, msgs) in p.senders.iter().enumerate() {
            for mi in 0..msgs.len() {
                match res[si][mi] {
                    Some(true) if !seen[si][mi] => {
                        return Verdict::fail("lost", "ok-but-not-on-wire", format!("send of ({si},{mi}) returned Ok but the message is not on the wire"));
                    }
                    Some(false) if !write_fault => {
                        return Verdict::fail("error", "send-failed-without-fault", format!("send of ({si},{mi}) failed although no fault was injected"));
                    }
                    None if !write_fault && !cancelled(si) => {
                        return Verdict::fail("hang", "send-never-finished", format!("send of ({si},{mi}) never completed"));
                    }
                    _ => {}
                }
            }
        }
        // non-trivial: some frame was written in more than one piece
        let mut multi = false;
        for (i, s) in starts.iter().enumerate() {
            let e = s + frames[i].len() as u64;
            if sizes.iter().any(|(o, _)| *o > *s && *o < e) {
                multi = true;
            }
        }
        if multi {
            w.count("probe.message_written_in_pieces");
        }
        Verdict::ok(multi && p.senders.len() > 1)
    }
}
