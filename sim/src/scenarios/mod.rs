//! One module per claimed property.
use crate::framework::Scenario;

pub mod common;
pub mod c14;
pub mod c16;
pub mod c17;

pub fn all() -> Vec<&'static dyn Scenario> {
    vec![&c14::C14, &c16::C16, &c17::C17]
}

pub fn find(id: &str) -> Option<&'static dyn Scenario> {
    all().into_iter().find(|s| s.id() == id)
}
