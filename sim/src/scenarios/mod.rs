//! One module per claimed property.
use crate::framework::Scenario;

pub mod common;
pub mod c14;

pub fn all() -> Vec<&'static dyn Scenario> {
    vec![&c14::C14]
}

pub fn find(id: &str) -> Option<&'static dyn Scenario> {
    all().into_iter().find(|s| s.id() == id)
}
