//! One module per claimed property.
use crate::framework::Scenario;

pub mod common;
pub mod c12;
pub mod c13;
pub mod c14;
pub mod c15;
pub mod c16;
pub mod c17;
pub mod c18;
pub mod c19;
pub mod c20;
pub mod c24;
pub mod c25;
pub mod c26;
pub mod c28;
pub mod c29;
pub mod c30;
pub mod c31;
pub mod c32;
pub mod c33;
pub mod c36;
pub mod c37;
pub mod c38;
pub mod c39;

pub fn all() -> Vec<&'static dyn Scenario> {
    vec![&c12::C12, &c13::C13, &c14::C14, &c15::C15, &c16::C16, &c17::C17, &c18::C18, &c19::C19, &c20::C20, &c24::C24, &c25::C25, &c26::C26, &c28::C28, &c29::C29, &c30::C30, &c31::C31, &c32::C32, &c33::C33, &c36::C36, &c37::C37, &c38::C38, &c39::C39]
}

pub fn find(id: &str) -> Option<&'static dyn Scenario> {
    all().into_iter().find(|s| s.id() == id)
}
