//! C20 — message streams deliver every matching message once, in order.
use std::sync::Arc;

use event_listener::Event;
use futures_lite::StreamExt;
use serde::{Deserialize, Serialize};
use serde_json::Value;
use zbus::{AsyncDrop, Connection, MatchRule, MessageStream};

use super::common::*;
use crate::{
    framework::{Scenario, Tier, Verdict},
    kernel::{SchedCfg, World},
    net::{sim_pair, LinkCfg, SockCfg},
    peers::GUID,
    rng::Rng,
    wire::{RawMsg, Val, T_CALL, T_SIGNAL},
};

pub struct C20Scn;
pub static C20: C20Scn = C20Scn;

/// Rule alphabet: (type, interface, member, path); `None` = key absent.
const RULES: &[(Option<u8>, Option<&str>, Option<&str>, Option<&str>)] = &[
    (Some(T_SIGNAL), None, None, None),
    (Some(T_SIGNAL), Some("org.c20.A"), None, None),
    (None, Some("org.c20.A"), Some("M1"), None),
    (None, None, None, Some("/c20/x")),
    (Some(T_SIGNAL), None, Some("M2"), None),
    (Some(T_CALL), None, None, None),
];

#[derive(Clone, Copy, Debug, Serialize, Deserialize, PartialEq)]
struct Msg {
    call: bool,
    iface: u8,
    member: u8,
    path: u8,
}

const IFACES: &[&str] = &["org.c20.A", "org.c20.B"];
const MEMBERS: &[&str] = &["M1", "M2", "M3"];
const PATHS: &[&str] = &["/c20/x", "/c20/y"];

fn matches(rule: Option<usize>, m: &Msg) -> bool {
    let Some(r) = rule else { return true };
    let (t, i, mem, p) = RULES[r];
    let mt = if m.call { T_CALL } else { T_SIGNAL };
    t.map(|t| t == mt).unwrap_or(true)
        && i.map(|i| i == IFACES[m.iface as usize]).unwrap_or(true)
        && mem.map(|x| x == MEMBERS[m.member as usize]).unwrap_or(true)
        && p.map(|x| x == PATHS[m.path as usize]).unwrap_or(true)
}

#[derive(Clone, Copy, Debug, Serialize, Deserialize, PartialEq)]
enum Op {
    /// create stream `id` for rule (None = unfiltered) with queue capacity and consumer pace
    Create { id: u8, rule: Option<u8>, cap: u8, pace: u8 },
    /// drop stream `id` (sync `Drop` or `async_drop`)
    Drop { id: u8, asynchronous: bool },
}

#[derive(Clone, Debug, Serialize, Deserialize, PartialEq)]
struct Round {
    before: Vec<Op>,
    /// ops running concurrently with the burst, each after `gap` yields
    during: Vec<(Op, u8)>,
    burst: Vec<Msg>,
    /// the burst is written in this many pieces
    pieces: u8,
}

#[derive(Clone, Debug, Serialize, Deserialize, PartialEq)]
struct P {
    unfiltered_cap: u8,
    rounds: Vec<Round>,
    link: LinkCfg,
}

#[derive(Clone, Debug)]
enum Item {
    Msg(u32, u32, zbus::message::Sequence),
    Err(String),
    Ended,
}

struct Slot {
    rule: Option<usize>,
    cap: usize,
    log: Shared<Vec<Item>>,
    stop: Arc<Event>,
    stop_kind: Shared<Option<bool>>,
    task: Option<async_task::Task<()>>,
    /// first round for which the stream was subscribed before the burst started
    must_from: Option<usize>,
    /// rounds during which it was created / dropped concurrently with the burst
    created_in: Option<usize>,
    dropped_in: Option<usize>,
    /// last round it had to be complete for
    must_until: Option<usize>,
    create_failed: Option<String>,
}

fn build_rule(r: usize) -> MatchRule<'static> {
    let (t, i, m, p) = RULES[r];
    let mut b = MatchRule::builder();
    if let Some(t) = t {
        b = b.msg_type(if t == T_CALL { zbus::message::Type::MethodCall } else { zbus::message::Type::Signal });
    }
    if let Some(i) = i {
        b = b.interface(i).unwrap();
    }
    if let Some(m) = m {
        b = b.member(m).unwrap();
    }
    if let Some(p) = p {
        b = b.path(p).unwrap();
    }
    b.build()
}

async fn consume(w: World, mut stream: MessageStream, log: Shared<Vec<Item>>, stop: Arc<Event>, stop_kind: Shared<Option<bool>>, pace: u8) {
    loop {
        let l = stop.listen();
        let kind = *stop_kind.lock().unwrap();
        if let Some(asynchronous) = kind {
            if asynchronous {
                stream.async_drop().await;
            } else {
                drop(stream);
            }
            return;
        }
        let next = futures_lite::future::or(async { Some(stream.next().await) }, async {
            l.await;
            None
        })
        .await;
        match next {
            None => continue,
            Some(None) => {
                log.lock().unwrap().push(Item::Ended);
                return;
            }
            Some(Some(Err(e))) => log.lock().unwrap().push(Item::Err(e.to_string())),
            Some(Some(Ok(m))) => {
                let tag = m.body().deserialize::<(u32, u32)>().unwrap_or((u32::MAX, u32::MAX));
                log.lock().unwrap().push(Item::Msg(tag.0, tag.1, m.recv_position()));
            }
        }
        match pace {
            0 => {}
            1 => w.yield_now().await,
            n => w.sleep_ns(n as u64 * 5_000).await,
        }
    }
}

impl Scenario for C20Scn {
    fn id(&self) -> &'static str {
        "C20"
    }
    fn rule(&self) -> &'static str {
        "plan = 1..4 rounds separated by quiescence; before a round streams are created (rules over type/interface/member/path from a 6-rule alphabet, equal and different, or unfiltered; queue capacity 1..4; consumer pace fast/yielding/sleeping) or dropped (Drop or async_drop); during the round the peer sends a burst of 1..10 signals/calls in 1..3 pieces while further create/drop operations run concurrently; oracle per stream: every burst message matching its rule for every round it was subscribed throughout (MUST), possibly matching messages of rounds in which it was created or dropped (MAY), nothing else, no duplicates, strictly increasing receive positions; non-trivial = at least two streams were alive in a round whose burst held more matching messages than the capacity of one of them (the reader had to wait for a consumer while serving another)"
    }
    fn runs(&self, tier: Tier) -> u64 {
        match tier {
            Tier::Quick => 8_000,
            Tier::Thorough => 500_000,
        }
    }
    fn real(&self) -> Vec<&'static str> {
        vec!["Connection::add_match / remove_match / queue_remove_match refcounting", "socket reader fan-out (HashMap iteration order seeded)", "MatchRule::matches", "MessageStream + Drop + AsyncDrop", "async-broadcast channels with small capacities"]
    }
    fn stubbed(&self) -> Vec<&'static str> {
        vec!["OS socket", "executor (seeded scheduler)", "clock", "peer (scripted bursts)", "hash keys (seeded getrandom)"]
    }
    fn assumptions(&self) -> Vec<&'static str> {
        vec!["races exactly at a subscription edge (stream created or dropped while a burst is in flight) are tolerated (MAY), not judged", "every stream is polled; a stream that is never polled may legitimately stall the reader"]
    }

    fn generate(&self, rng: &mut Rng, _idx: u64, _tier: Tier) -> (SchedCfg, Value) {
        let nr = rng.range(1, 4) as usize;
        let mut alive: Vec<u8> = vec![];
        let mut next_id = 0u8;
        let mut rounds = vec![];
        let gen_create = |rng: &mut Rng, next_id: &mut u8| {
            let id = *next_id;
            *next_id += 1;
            Op::Create {
                id,
                rule: if rng.chance(1, 5) { None } else { Some(*rng.pick(&[0u8, 1, 1, 2, 2, 3, 4, 5])) },
                cap: rng.range(1, 4) as u8,
                pace: *rng.pick(&[0u8, 0, 1, 2, 3]),
            }
        };
        for r in 0..nr {
            let mut before = vec![];
            let n_ops = if r == 0 { rng.range(1, 4) } else { rng.range(0, 3) };
            for _ in 0..n_ops {
                if !alive.is_empty() && rng.chance(1, 3) {
                    let i = rng.usize(alive.len());
                    before.push(Op::Drop { id: alive.remove(i), asynchronous: rng.chance(1, 2) });
                } else if next_id < 12 {
                    let op = gen_create(rng, &mut next_id);
                    if let Op::Create { id, .. } = op {
                        alive.push(id);
                    }
                    before.push(op);
                }
            }
            let mut during = vec![];
            for _ in 0..rng.range(0, 2) {
                if !alive.is_empty() && rng.chance(1, 2) {
                    let i = rng.usize(alive.len());
                    during.push((Op::Drop { id: alive.remove(i), asynchronous: rng.chance(1, 2) }, rng.below(6) as u8));
                } else if next_id < 12 {
                    let op = gen_create(rng, &mut next_id);
                    if let Op::Create { id, .. } = op {
                        alive.push(id);
                    }
                    during.push((op, rng.below(6) as u8));
                }
            }
            let burst = (0..rng.range(1, 10))
                .map(|_| Msg { call: rng.chance(1, 6), iface: rng.below(2) as u8, member: rng.below(3) as u8, path: rng.below(2) as u8 })
                .collect();
            rounds.push(Round { before, during, burst, pieces: rng.range(1, 3) as u8 });
        }
        let sched = SchedCfg::generate(rng, &["socket reader", "consumer", "Remove match"]);
        (sched, j(&P { unfiltered_cap: rng.range(1, 4) as u8, rounds, link: gen_read_cfg(rng) }))
    }

    fn shrink(&self, body: &Value) -> Vec<Value> {
        let p: P = unj(body);
        let mut out = vec![];
        if p.rounds.len() > 1 {
            let mut q = p.clone();
            q.rounds.pop();
            out.push(j(&q));
        }
        for (ri, r) in p.rounds.iter().enumerate() {
            for b in drop_candidates(&r.burst) {
                if !b.is_empty() {
                    let mut q = p.clone();
                    q.rounds[ri].burst = b;
                    out.push(j(&q));
                }
            }
            for d in drop_candidates(&r.during) {
                let mut q = p.clone();
                q.rounds[ri].during = d;
                out.push(j(&q));
            }
            for (oi, op) in r.before.iter().enumerate() {
                // removing a create also removes later ops on that id
                let mut q = p.clone();
                let id = match op {
                    Op::Create { id, .. } | Op::Drop { id, .. } => *id,
                };
                let is_create = matches!(op, Op::Create { .. });
                q.rounds[ri].before.remove(oi);
                if is_create {
                    for rr in &mut q.rounds {
                        rr.before.retain(|o| !matches!(o, Op::Drop { id: i, .. } if *i == id));
                        rr.during.retain(|(o, _)| !matches!(o, Op::Drop { id: i, .. } if *i == id));
                    }
                }
                out.push(j(&q));
            }
            if r.pieces > 1 {
                let mut q = p.clone();
                q.rounds[ri].pieces = 1;
                out.push(j(&q));
            }
        }
        if p.link != LinkCfg::default() {
            let mut q = p.clone();
            q.link = LinkCfg::default();
            out.push(j(&q));
        }
        out
    }

    fn run(&self, w: &World, body: &Value) -> Verdict {
        let p: P = unj(body);
        let (sock, raw) = sim_pair(w, p.link.clone(), LinkCfg::default(), SockCfg::default());
        let conn_slot: Shared<Option<Connection>> = shared(None);
        let cs = conn_slot.clone();
        let ucap = p.unfiltered_cap as usize;
        let setup = w.spawn("setup", async move {
            let c = zbus::connection::Builder::authenticated_socket(sock, GUID).unwrap().p2p().internal_executor(false).max_queued(ucap).build().await;
            *cs.lock().unwrap() = c.ok();
        });
        w.run();
        drop(setup);
        let Some(conn) = conn_slot.lock().unwrap().clone() else { return Verdict::harness("connection did not build") };

        let slots: Shared<std::collections::BTreeMap<u8, Slot>> = shared(Default::default());
        let mut op_tasks: Vec<async_task::Task<()>> = vec![];
        let mut sent: Vec<Vec<Msg>> = vec![];

        let start_op = |op: Op, gap: u8, round: usize, in_round: bool, op_tasks: &mut Vec<async_task::Task<()>>| {
            let conn = conn.clone();
            let slots = slots.clone();
            let ww = w.clone();
            op_tasks.push(w.spawn("op", async move {
                for _ in 0..gap {
                    ww.yield_now().await;
                }
                match op {
                    Op::Create { id, rule, cap, pace } => {
                        let rule_idx = rule.map(|r| r as usize);
                        let stream = match rule_idx {
                            None => Ok(MessageStream::from(&conn)),
                            Some(r) => MessageStream::for_match_rule(build_rule(r), &conn, Some(cap as usize)).await,
                        };
                        let log = shared(vec![]);
                        let stop = Arc::new(Event::new());
                        let stop_kind = shared(None);
                        let (task, failed) = match stream {
                            Ok(s) => (Some(ww.spawn(&format!("consumer-{id}"), consume(ww.clone(), s, log.clone(), stop.clone(), stop_kind.clone(), pace))), None),
                            Err(e) => (None, Some(e.to_string())),
                        };
                        slots.lock().unwrap().insert(
                            id,
                            Slot {
                                rule: rule_idx,
                                cap: if rule_idx.is_none() { ucap } else { cap as usize },
                                log,
                                stop,
                                stop_kind,
                                task,
                                must_from: None,
                                created_in: if in_round { Some(round) } else { None },
                                dropped_in: None,
                                must_until: None,
                                create_failed: failed,
                            },
                        );
                    }
                    Op::Drop { id, asynchronous } => {
                        let mut g = slots.lock().unwrap();
                        if let Some(s) = g.get_mut(&id) {
                            if in_round {
                                s.dropped_in = Some(round);
                            }
                            *s.stop_kind.lock().unwrap() = Some(asynchronous);
                            s.stop.notify(usize::MAX);
                        }
                    }
                }
            }));
        };

        let mut nontrivial = false;
        for (ri, round) in p.rounds.iter().enumerate() {
            for op in &round.before {
                start_op(*op, 0, ri, false, &mut op_tasks);
                // one at a time, in plan order
                w.run();
            }
            // streams alive now are subscribed throughout this round unless dropped during it
            {
                let mut g = slots.lock().unwrap();
                let dropping: Vec<u8> = round
                    .during
                    .iter()
                    .filter_map(|(o, _)| match o {
                        Op::Drop { id, .. } => Some(*id),
                        _ => None,
                    })
                    .collect();
                let mut alive_caps = vec![];
                for (id, s) in g.iter_mut() {
                    let stopped = s.stop_kind.lock().unwrap().is_some();
                    if !stopped && s.create_failed.is_none() {
                        if s.must_from.is_none() {
                            s.must_from = Some(ri);
                        }
                        if !dropping.contains(id) {
                            s.must_until = Some(ri);
                        }
                        alive_caps.push((s.rule, s.cap));
                    }
                }
                if alive_caps.len() >= 2 && alive_caps.iter().any(|(r, c)| round.burst.iter().filter(|m| matches(*r, m)).count() > *c) {
                    nontrivial = true;
                }
            }
            for (op, gap) in &round.during {
                start_op(*op, *gap, ri, true, &mut op_tasks);
            }
            // the burst
            let mut bytes: Vec<Vec<u8>> = vec![];
            for (i, m) in round.burst.iter().enumerate() {
                let r = if m.call {
                    RawMsg::call(1000 + (ri * 100 + i) as u32, PATHS[m.path as usize], Some(IFACES[m.iface as usize]), MEMBERS[m.member as usize]).flags(1)
                } else {
                    RawMsg::signal(1000 + (ri * 100 + i) as u32, PATHS[m.path as usize], IFACES[m.iface as usize], MEMBERS[m.member as usize])
                };
                bytes.push(r.body(&[Val::U32(ri as u32), Val::U32(i as u32)]).encode());
            }
            let per = (bytes.len() + round.pieces as usize - 1) / round.pieces.max(1) as usize;
            for chunk in bytes.chunks(per.max(1)) {
                raw.write(&chunk.concat());
            }
            sent.push(round.burst.clone());
            w.run();
        }
        if nontrivial {
            w.count("probe.burst_exceeds_a_queue_with_several_streams");
        }

        // ---- oracle ----
        let mut verdict = None;
        {
            let g = slots.lock().unwrap();
            for (id, s) in g.iter() {
                if let Some(e) = &s.create_failed {
                    verdict = Some(Verdict::fail("create", "create-failed", format!("creating stream {id} failed on a healthy connection: {e}")));
                    break;
                }
                let log = s.log.lock().unwrap().clone();
                let mut got: Vec<(u32, u32)> = vec![];
                let mut last_seq = None;
                for it in &log {
                    match it {
                        Item::Err(e) => {
                            verdict = Some(Verdict::fail("error", "error-item", format!("stream {id} yielded an error on a healthy connection: {e}")));
                        }
                        Item::Ended => {
                            verdict = Some(Verdict::fail("ended", "stream-ended", format!("stream {id} ended on a healthy connection")));
                        }
                        Item::Msg(r, i, seq) => {
                            if let Some(l) = last_seq {
                                if *seq <= l {
                                    verdict = Some(Verdict::fail("order", "recv-position", format!("stream {id}: receive position not increasing at ({r},{i})")));
                                }
                            }
                            last_seq = Some(*seq);
                            got.push((*r, *i));
                        }
                    }
                }
                if verdict.is_some() {
                    break;
                }
                // allowed set and mandatory set
                let mut must = vec![];
                let mut may = vec![];
                for (ri, burst) in sent.iter().enumerate() {
                    let in_must = s.must_from.map(|f| ri >= f).unwrap_or(false) && s.must_until.map(|u| ri <= u).unwrap_or(false);
                    let in_may = in_must || s.created_in == Some(ri) || s.dropped_in == Some(ri) || (s.must_from.map(|f| ri >= f).unwrap_or(false) && s.dropped_in.map(|d| ri <= d).unwrap_or(false));
                    for (i, m) in burst.iter().enumerate() {
                        if matches(s.rule, m) {
                            if in_must {
                                must.push((ri as u32, i as u32));
                            }
                            if in_may {
                                may.push((ri as u32, i as u32));
                            }
                        }
                    }
                }
                let rule_txt = s.rule.map(|r| format!("{:?}", RULES[r])).unwrap_or_else(|| "unfiltered".into());
                let mut seen = std::collections::BTreeSet::new();
                for g1 in &got {
                    if !seen.insert(*g1) {
                        verdict = Some(Verdict::fail("dup", "duplicate", format!("stream {id} ({rule_txt}) yielded message {g1:?} twice")));
                        break;
                    }
                    if !may.contains(g1) {
                        verdict = Some(Verdict::fail("foreign", "not-matching-or-not-subscribed", format!("stream {id} ({rule_txt}) yielded {g1:?} which it should not see; allowed {may:?}")));
                        break;
                    }
                }
                if verdict.is_some() {
                    break;
                }
                // order: `got` must be a subsequence of `may` (which is in arrival order)
                let mut k = 0;
                for g1 in &got {
                    while k < may.len() && may[k] != *g1 {
                        k += 1;
                    }
                    if k == may.len() {
                        verdict = Some(Verdict::fail("order", "arrival-order", format!("stream {id} ({rule_txt}) yielded {got:?}, arrival order is {may:?}")));
                        break;
                    }
                    k += 1;
                }
                if verdict.is_some() {
                    break;
                }
                if let Some(m) = must.iter().find(|m| !got.contains(m)) {
                    verdict = Some(Verdict::fail(
                        "lost",
                        "missing-message",
                        format!("stream {id} ({rule_txt}, capacity {}) never yielded {m:?}; it was subscribed throughout rounds {:?}..={:?}; got {got:?}, must {must:?}", s.cap, s.must_from, s.must_until),
                    ));
                    break;
                }
            }
        }
        // teardown
        let tasks: Vec<_> = slots.lock().unwrap().values_mut().filter_map(|s| s.task.take()).collect();
        drop(tasks);
        drop(op_tasks);
        drop(conn);
        *conn_slot.lock().unwrap() = None;
        raw.tx.drop_wakers();
        raw.rx.drop_wakers();
        verdict.unwrap_or_else(|| Verdict::ok(nontrivial))
    }
}
