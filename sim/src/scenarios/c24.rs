//! C24 — the object server exposes exactly the registered interfaces.
use std::collections::BTreeMap;

use serde::{Deserialize, Serialize};
use serde_json::Value;
use zbus::Connection;

use super::common::*;
use crate::{
    corpus::{C, D, E},
    framework::{Scenario, Tier, Verdict},
    kernel::{SchedCfg, World},
    models::{linearizable, HistOp, SeqModel},
    net::{sim_socket_pair, LinkCfg, SockCfg},
    rng::Rng,
};

pub struct C24Scn;
pub static C24: C24Scn = C24Scn;

const PATHS: &[&str] = &["/", "/a", "/a/b", "/a/b/c", "/d"];
const IFACES: &[&str] = &["org.sim.C", "org.sim.D", "org.sim.E"];

#[derive(Clone, Copy, Debug, Serialize, Deserialize, PartialEq)]
enum Op {
    At(u8, u8),
    Remove(u8, u8),
    Get(u8, u8),
    Call(u8, u8),
    Introspect(u8),
}

#[derive(Clone, Debug, PartialEq)]
enum Ret {
    Added(bool),
    Removed(Result<bool, String>),
    Got(Option<u32>),
    Called(Result<u32, String>),
    Listed(Result<(Vec<String>, Vec<String>), String>),
    Failed(String),
}

#[derive(Clone, Debug, Serialize, Deserialize, PartialEq)]
struct P {
    /// local tasks: (op, yields before it)
    local: Vec<Vec<(Op, u8)>>,
    remote: Vec<(Op, u8)>,
    link: LinkCfg,
    /// fault kind `cancel_task`: (local task, await points survived) - that task is dropped in the middle of an
    /// operation, which then counts as pending (it may take effect at any later point, or never)
    #[serde(default)]
    cancel: Option<(u8, u32)>,
}

#[derive(Clone)]
struct Model {
    regs: BTreeMap<(u8, u8), u32>,
}

/// (op, token used by At)
type MOp = (Op, u32);

impl SeqModel for Model {
    type Op = MOp;
    type Ret = Ret;

    fn apply(&mut self, (op, token): &MOp, r: &Ret) -> bool {
        match (op, r) {
            (_, Ret::Failed(_)) => false,
            (Op::At(p, i), Ret::Added(added)) => {
                let present = self.regs.contains_key(&(*p, *i));
                if !present {
                    self.regs.insert((*p, *i), *token);
                }
                *added != present
            }
            (Op::Remove(p, i), Ret::Removed(res)) => {
                let present = self.regs.remove(&(*p, *i)).is_some();
                res.is_ok() == present
            }
            (Op::Get(p, i), Ret::Got(t)) => self.regs.get(&(*p, *i)).copied() == *t,
            (Op::Call(p, i), Ret::Called(res)) => match (self.regs.get(&(*p, *i)), res) {
                (Some(t), Ok(got)) => t == got,
                (None, Err(e)) => e.contains("UnknownObject") || e.contains("UnknownInterface"),
                _ => false,
            },
            (Op::Introspect(p), Ret::Listed(res)) => {
                let path = PATHS[*p as usize];
                let mut want_ifaces: Vec<String> = self.regs.keys().filter(|(pp, _)| pp == p).map(|(_, i)| IFACES[*i as usize].to_string()).collect();
                want_ifaces.sort();
                let prefix = if path == "/" { "/".to_string() } else { format!("{path}/") };
                let mut must_children: Vec<String> = self
                    .regs
                    .keys()
                    .map(|(pp, _)| PATHS[*pp as usize])
                    .filter(|q| q.starts_with(&prefix) && *q != path)
                    .map(|q| q[prefix.len()..].split('/').next().unwrap().to_string())
                    .collect();
                must_children.sort();
                must_children.dedup();
                match res {
                    Ok((ifaces, children)) => {
                        let mine: Vec<String> = ifaces.iter().filter(|i| i.starts_with("org.sim.")).cloned().collect();
                        mine == want_ifaces && must_children.iter().all(|c| children.contains(c))
                    }
                    Err(e) => e.contains("UnknownObject") && want_ifaces.is_empty() && must_children.is_empty() && path != "/",
                }
            }
            _ => false,
        }
    }

    fn apply_blind(&mut self, (op, token): &MOp) {
        match op {
            Op::At(p, i) => {
                self.regs.entry((*p, *i)).or_insert(*token);
            }
            Op::Remove(p, i) => {
                self.regs.remove(&(*p, *i));
            }
            _ => {}
        }
    }

    fn key(&self) -> u64 {
        let mut h = crate::rng::Fnv::default();
        for ((p, i), t) in &self.regs {
            h.write(&[*p, *i]);
            h.write_u64(*t as u64);
        }
        h.0
    }
}

async fn do_local(conn: &Connection, op: Op, token: u32) -> Ret {
    let os = conn.object_server();
    match op {
        Op::At(p, i) => {
            let path = PATHS[p as usize];
            let r = match i {
                0 => os.at(path, C(token)).await,
                1 => os.at(path, D(token)).await,
                _ => os.at(path, E(token)).await,
            };
            match r {
                Ok(b) => Ret::Added(b),
                Err(e) => Ret::Failed(e.to_string()),
            }
        }
        Op::Remove(p, i) => {
            let path = PATHS[p as usize];
            let r = match i {
                0 => os.remove::<C, _>(path).await,
                1 => os.remove::<D, _>(path).await,
                _ => os.remove::<E, _>(path).await,
            };
            match r {
                Ok(b) => Ret::Removed(Ok(b)),
                Err(zbus::Error::InterfaceNotFound) => Ret::Removed(Err("InterfaceNotFound".into())),
                Err(e) => Ret::Failed(e.to_string()),
            }
        }
        Op::Get(p, i) => {
            let path = PATHS[p as usize];
            let r = match i {
                0 => match os.interface::<_, C>(path).await {
                    Ok(r) => Ok(r.get().await.0),
                    Err(e) => Err(e),
                },
                1 => match os.interface::<_, D>(path).await {
                    Ok(r) => Ok(r.get().await.0),
                    Err(e) => Err(e),
                },
                _ => match os.interface::<_, E>(path).await {
                    Ok(r) => Ok(r.get().await.0),
                    Err(e) => Err(e),
                },
            };
            match r {
                Ok(t) => Ret::Got(Some(t)),
                Err(zbus::Error::InterfaceNotFound) => Ret::Got(None),
                Err(e) => Ret::Failed(e.to_string()),
            }
        }
        _ => Ret::Failed("not a local op".into()),
    }
}

async fn do_remote(conn: &Connection, op: Op) -> Ret {
    match op {
        Op::Call(p, i) => {
            let r = conn.call_method(None::<&str>, PATHS[p as usize], Some(IFACES[i as usize]), "Whoami", &()).await;
            Ret::Called(match r {
                Ok(m) => m.body().deserialize::<u32>().map_err(|e| e.to_string()),
                Err(zbus::Error::MethodError(n, _, _)) => Err(n.to_string()),
                Err(e) => return Ret::Failed(e.to_string()),
            })
        }
        Op::Introspect(p) => {
            let r = conn.call_method(None::<&str>, PATHS[p as usize], Some("org.freedesktop.DBus.Introspectable"), "Introspect", &()).await;
            Ret::Listed(match r {
                Ok(m) => match m.body().deserialize::<String>() {
                    Ok(xml) => Ok(parse_introspection(&xml)),
                    Err(e) => Err(e.to_string()),
                },
                Err(zbus::Error::MethodError(n, _, _)) => Err(n.to_string()),
                Err(e) => return Ret::Failed(e.to_string()),
            })
        }
        _ => Ret::Failed("not a remote op".into()),
    }
}

impl Scenario for C24Scn {
    fn id(&self) -> &'static str {
        "C24"
    }
    fn rule(&self) -> &'static str {
        "1..2 local tasks issue at / remove / interface over paths {/, /a, /a/b, /a/b/c, /d} x three interface types (in a quarter of the runs one local task is cancelled at a seeded await point: its operation in flight counts as pending - it may take effect at any later point or never) while a real client connection concurrently calls a method on (path, interface) pairs and introspects paths; results (true/false, InterfaceNotFound, tokens unique per registration, UnknownObject/UnknownInterface, introspected interface sets and mandatory child nodes) must admit a linearization against a set-of-registrations model (brute-force checker, invocation/return stamped with the global scheduler step); thorough also enumerates every sequential history of <= 3 mutating operations followed by a full sweep of lookups; non-trivial = the history removes an interface from a node that has registered descendants, or operates on the root path"
    }
    fn runs(&self, tier: Tier) -> u64 {
        match tier {
            Tier::Quick => 6_000,
            Tier::Thorough => 400_000,
        }
    }
    fn real(&self) -> Vec<&'static str> {
        vec!["ObjectServer::at / remove / interface", "object_server::Node tree", "dispatch of remote calls", "fdo::Introspectable + Node::introspect", "two real connections (client and server)"]
    }
    fn stubbed(&self) -> Vec<&'static str> {
        vec!["OS sockets (simulated pair)", "executor (seeded scheduler)", "clock"]
    }
    fn assumptions(&self) -> Vec<&'static str> {
        vec!["for an absent (path, interface) pair either UnknownObject or UnknownInterface is accepted", "introspection may list additional (empty) child nodes; it must list the next path component of every registered descendant", "the destroyed flag returned by remove is not judged"]
    }

    fn generate(&self, rng: &mut Rng, idx: u64, tier: Tier) -> (SchedCfg, Value) {
        let gen_mut = |rng: &mut Rng| {
            let p = *rng.pick(&[0u8, 1, 1, 2, 2, 3, 4]);
            let i = rng.below(3) as u8;
            if rng.chance(3, 5) {
                Op::At(p, i)
            } else {
                Op::Remove(p, i)
            }
        };
        // systematic part (thorough): sequential histories of <= 3 mutating ops over a reduced alphabet
        let alphabet: Vec<Op> = (0..5u8).flat_map(|p| (0..2u8).flat_map(move |i| [Op::At(p, i), Op::Remove(p, i)])).collect();
        let n = alphabet.len() as u64;
        let enumerated = n + n * n + n * n * n;
        if tier == Tier::Thorough && idx < enumerated {
            let ops: Vec<Op> = if idx < n {
                vec![alphabet[idx as usize]]
            } else if idx < n + n * n {
                let k = idx - n;
                vec![alphabet[(k / n) as usize], alphabet[(k % n) as usize]]
            } else {
                let k = idx - n - n * n;
                vec![alphabet[(k / (n * n)) as usize], alphabet[((k / n) % n) as usize], alphabet[(k % n) as usize]]
            };
            let mut local: Vec<(Op, u8)> = ops.into_iter().map(|o| (o, 0)).collect();
            for p in 0..5u8 {
                for i in 0..2u8 {
                    local.push((Op::Get(p, i), 0));
                }
            }
            let mut sched = SchedCfg::simplest();
            sched.hash_seed = rng.next_u64();
            return (sched, j(&P { local: vec![local], remote: vec![], link: LinkCfg::default(), cancel: None }));
        }
        let nl = rng.range(1, 2) as usize;
        let mut local = vec![];
        for _ in 0..nl {
            let k = rng.range(1, 5);
            let mut v = vec![];
            for _ in 0..k {
                let op = if rng.chance(4, 5) { gen_mut(rng) } else { Op::Get(rng.below(5) as u8, rng.below(3) as u8) };
                v.push((op, rng.below(3) as u8));
            }
            local.push(v);
        }
        let mut remote = vec![];
        for _ in 0..rng.range(0, 4) {
            let op = if rng.chance(1, 2) { Op::Call(rng.below(5) as u8, rng.below(3) as u8) } else { Op::Introspect(rng.below(5) as u8) };
            remote.push((op, rng.below(4) as u8));
        }
        let sched = SchedCfg::generate(rng, &["local", "remote", "obj_server_task"]);
        let cancel = if !local.is_empty() && rng.chance(1, 4) { Some((rng.usize(local.len()) as u8, rng.below(5) as u32)) } else { None };
        (sched, j(&P { local, remote, link: gen_read_cfg(rng), cancel }))
    }

    fn shrink(&self, body: &Value) -> Vec<Value> {
        let p: P = unj(body);
        let mut out = vec![];
        for (i, l) in p.local.iter().enumerate() {
            for ops in drop_candidates(l) {
                let mut q = p.clone();
                q.local[i] = ops;
                out.push(j(&q));
            }
        }
        for r in drop_candidates(&p.remote) {
            let mut q = p.clone();
            q.remote = r;
            out.push(j(&q));
        }
        if p.link != LinkCfg::default() {
            let mut q = p.clone();
            q.link = LinkCfg::default();
            out.push(j(&q));
        }
        if let Some((t, n)) = p.cancel {
            let mut q = p.clone();
            q.cancel = if n > 0 { Some((t, n - 1)) } else { None };
            out.push(j(&q));
        }
        out
    }

    fn run(&self, w: &World, body: &Value) -> Verdict {
        let p: P = unj(body);
        let (sa, sb) = sim_socket_pair(w, p.link.clone(), p.link.clone(), SockCfg::default(), SockCfg::default());
        let conns = shared(None::<(Connection, Connection)>);
        let c2 = conns.clone();
        let setup = w.spawn("setup", async move {
            if let Ok((a, b)) = build_pair(sa, sb).await {
                // start the (on-demand) object server before any client traffic
                let _ = a.object_server();
                *c2.lock().unwrap() = Some((a, b));
            }
        });
        w.run();
        drop(setup);
        let Some((server, client)) = conns.lock().unwrap().take() else { return Verdict::harness("pair did not build") };

        let hist = shared(Vec::<HistOp<MOp, Ret>>::new());
        let mut tasks = vec![];
        for (ti, ops) in p.local.iter().enumerate() {
            let (conn, ops, hist, ww) = (server.clone(), ops.clone(), hist.clone(), w.clone());
            let cancel_at = match p.cancel {
                Some((t, n)) if t as usize == ti => Some(n),
                _ => None,
            };
            tasks.push(w.spawn(&format!("local-{ti}"), cancel_after(w, cancel_at, async move {
                for (k, (op, gap)) in ops.into_iter().enumerate() {
                    for _ in 0..gap {
                        ww.yield_now().await;
                    }
                    let token = (ti * 100 + k) as u32 + 1;
                    let idx = {
                        let mut h = hist.lock().unwrap();
                        h.push(HistOp { invoke: ww.steps(), ret: u64::MAX, op: (op, token), result: None, who: format!("local-{ti}") });
                        h.len() - 1
                    };
                    let r = do_local(&conn, op, token).await;
                    let mut h = hist.lock().unwrap();
                    h[idx].ret = ww.steps();
                    h[idx].result = Some(r);
                }
            })));
        }
        {
            let (conn, ops, hist, ww) = (client.clone(), p.remote.clone(), hist.clone(), w.clone());
            tasks.push(w.spawn("remote", async move {
                for (op, gap) in ops {
                    for _ in 0..gap {
                        ww.yield_now().await;
                    }
                    let idx = {
                        let mut h = hist.lock().unwrap();
                        h.push(HistOp { invoke: ww.steps(), ret: u64::MAX, op: (op, 0), result: None, who: "remote".into() });
                        h.len() - 1
                    };
                    let r = do_remote(&conn, op).await;
                    let mut h = hist.lock().unwrap();
                    h[idx].ret = ww.steps();
                    h[idx].result = Some(r);
                }
            }));
        }
        w.run();
        let h = hist.lock().unwrap().clone();
        drop(tasks);
        drop(server);
        drop(client);

        // non-trivial rule
        let ops_flat: Vec<Op> = h.iter().map(|x| x.op.0).collect();
        let root_op = ops_flat.iter().any(|o| matches!(o, Op::At(0, _) | Op::Remove(0, _)));
        let remove_parent = ops_flat.iter().any(|o| matches!(o, Op::Remove(1, _) | Op::Remove(2, _)))
            && ops_flat.iter().any(|o| matches!(o, Op::At(2, _) | Op::At(3, _)));
        let cancelled_who = p.cancel.map(|(t, _)| format!("local-{t}"));
        if h.iter().any(|x| x.result.is_none() && Some(&x.who) == cancelled_who.as_ref()) {
            w.count("probe.operation_cancelled_midway");
        }
        if let Some(x) = h.iter().find(|x| x.result.is_none() && Some(&x.who) != cancelled_who.as_ref()) {
            return Verdict::fail("hang", "operation-never-returned", format!("{} {:?} never returned", x.who, x.op.0));
        }
        if let Some(x) = h.iter().find(|x| matches!(x.result, Some(Ret::Failed(_)))) {
            return Verdict::fail("failed", "unexpected-error", format!("{} {:?} failed: {:?}", x.who, x.op.0, x.result));
        }
        if !linearizable(&Model { regs: BTreeMap::new() }, &h) {
            // name the operation kinds involved for the fingerprint
            let seq: Vec<String> = h.iter().map(|x| format!("{}:{:?}={:?}", x.who, x.op.0, x.result)).collect();
            let kinds = if ops_flat.iter().any(|o| matches!(o, Op::Remove(..))) { "with-remove" } else { "no-remove" };
            return Verdict::fail("linearizability", kinds, format!("no linearization of this history against the registration model: {seq:?}"));
        }
        if root_op {
            w.count("probe.operation_on_root_path");
        }
        if remove_parent {
            w.count("probe.remove_on_node_with_registered_descendants");
        }
        Verdict::ok(root_op || remove_parent)
    }
}
