//! C39 — dropping or shutting down a connection releases it correctly.
use std::any::Any;

use serde::{Deserialize, Serialize};
use serde_json::Value;
use zbus::{Connection, MatchRule, MessageStream};

use super::common::*;
use crate::{
    corpus::{new_log, A},
    framework::{Scenario, Tier, Verdict},
    kernel::{SchedCfg, World},
    net::{sim_pair, LinkCfg, SockCfg},
    peers::{PeerReader, GUID},
    rng::Rng,
    wire::{RawMsg, Val, T_RETURN},
};

pub struct C39Scn;
pub static C39: C39Scn = C39Scn;

#[derive(Clone, Copy, Debug, Serialize, Deserialize, PartialEq)]
enum HKind {
    Clone,
    StreamAll,
    StreamRule,
    Proxy,
    ProxyWithCacheTask,
    SignalStream,
    InterfaceRef,
}

#[derive(Clone, Copy, Debug, Serialize, Deserialize, PartialEq)]
enum Act {
    Drop(u8),
    /// graceful_shutdown() on handle i (must be a `Clone`)
    Shutdown(u8),
}

#[derive(Clone, Debug, Serialize, Deserialize, PartialEq)]
struct P {
    /// handle 0 is always the original connection
    handles: Vec<HKind>,
    /// in-flight slow handlers: sleep durations (simulated us) of calls the peer sends up front
    calls: Vec<u32>,
    /// (action, scheduler steps to run afterwards; 0 = until quiescence)
    steps: Vec<(Act, u16)>,
    link: LinkCfg,
    /// fault kind `cancel_task`: creations of a handle of this kind that are dropped at their n-th await
    /// point (and, if they got that far, dropped right after completion); they must leave nothing behind
    #[serde(default)]
    abandoned: Vec<(HKind, u32)>,
}

type Handle = Box<dyn Any + Send>;

async fn make_handle(conn: &zbus::Connection, k: HKind) -> zbus::Result<Handle> {
    Ok(match k {
        HKind::Clone => Box::new(conn.clone()),
        HKind::StreamAll => Box::new(MessageStream::from(conn)),
        HKind::StreamRule => {
            let rule = MatchRule::builder().msg_type(zbus::message::Type::Signal).member("Whatever")?.build();
            Box::new(MessageStream::for_match_rule(rule, conn, None).await?)
        }
        HKind::Proxy | HKind::ProxyWithCacheTask | HKind::SignalStream => {
            let px: zbus::Proxy<'static> = zbus::proxy::Builder::new(conn)
                .destination(":1.77")?
                .path("/peer")?
                .interface("org.peer.I")?
                .cache_properties(if k == HKind::ProxyWithCacheTask { zbus::proxy::CacheProperties::Lazily } else { zbus::proxy::CacheProperties::No })
                .build()
                .await?;
            match k {
                HKind::SignalStream => Box::new(px.receive_signal("Sig").await?),
                HKind::ProxyWithCacheTask => {
                    // starts the caching task (GetAll goes unanswered: the task stays pending)
                    let _ = px.cached_property::<u32>("P");
                    let _stream = px.receive_property_changed::<u32>("P").await;
                    Box::new(px)
                }
                _ => Box::new(px),
            }
        }
        HKind::InterfaceRef => Box::new(conn.object_server().interface::<_, A>("/a").await?),
    })
}

impl Scenario for C39Scn {
    fn id(&self) -> &'static str {
        "C39"
    }
    fn rule(&self) -> &'static str {
        "side A (real connection with an object server whose handlers sleep on the simulated clock) holds 1..7 handles: connection clones, unfiltered and rule streams, proxies (with and without a running property-cache task), a proxy signal stream, an InterfaceRef; in a third of the runs 1..3 further creations of such handles are cancelled at one of their first await points (fault kind cancel_task; on a p2p connection these creations seldom suspend, the fired counter says how often one was really cut) and must leave nothing behind that keeps the connection alive; the raw peer sends 0..3 calls up front; the director drops the handles in a seeded order (all of them, or all but one), optionally calling graceful_shutdown() on one clone (or on every clone that goes, so that several are pending at once), running a seeded number of scheduler steps between actions; oracle: the peer observes EOF by quiescence iff every handle is gone, never before the last one went, every handler that started got its reply on the wire, every graceful_shutdown completes iff everything else is gone and writes nothing afterwards; non-trivial = at least three handles of two kinds, or a handler in flight when the last handle went"
    }
    fn runs(&self, tier: Tier) -> u64 {
        match tier {
            Tier::Quick => 6_000,
            Tier::Thorough => 400_000,
        }
    }
    fn real(&self) -> Vec<&'static str> {
        vec!["Connection / ConnectionInner drop", "graceful_shutdown", "socket reader task cancellation", "object server dispatch task (weak connection)", "spawned method dispatchers (strong connection while in flight)", "MessageStream / Proxy / SignalStream / InterfaceRef ownership of the connection"]
    }
    fn stubbed(&self) -> Vec<&'static str> {
        vec!["OS socket (closes when both halves are dropped, like Arc<Async<UnixStream>>)", "executor (seeded scheduler)", "clock", "peer (scripted)"]
    }

    fn generate(&self, rng: &mut Rng, _idx: u64, _tier: Tier) -> (SchedCfg, Value) {
        let n = rng.range(1, 7) as usize;
        let mut handles = vec![HKind::Clone];
        for _ in 1..n {
            handles.push(*rng.pick(&[HKind::Clone, HKind::Clone, HKind::StreamAll, HKind::StreamRule, HKind::Proxy, HKind::ProxyWithCacheTask, HKind::SignalStream, HKind::InterfaceRef]));
        }
        let calls = (0..rng.below(4)).map(|_| *rng.pick(&[0u32, 1, 50, 2_000])).collect();
        // a seeded permutation
        let mut order: Vec<u8> = (0..n as u8).collect();
        for i in (1..order.len()).rev() {
            order.swap(i, rng.usize(i + 1));
        }
        if rng.chance(1, 4) {
            order.pop();
        }
        // graceful_shutdown() on one clone, or (one run in three of those) on every clone that goes
        let shutdown_one = rng.chance(1, 3);
        let shutdown_many = shutdown_one && rng.chance(1, 3);
        let mut did = false;
        let steps = order
            .into_iter()
            .map(|i| {
                let act = if shutdown_one && (!did || shutdown_many) && handles[i as usize] == HKind::Clone {
                    did = true;
                    Act::Shutdown(i)
                } else {
                    Act::Drop(i)
                };
                (act, *rng.pick(&[0u16, 0, 1, 2, 5, 20]))
            })
            .collect();
        let sched = SchedCfg::generate(rng, &["socket reader", "obj_server_task", "method dispatcher"]);
        let abandoned = if rng.chance(1, 3) {
            (0..rng.range(1, 3)).map(|_| (*rng.pick(&[HKind::StreamRule, HKind::Proxy, HKind::ProxyWithCacheTask, HKind::SignalStream, HKind::SignalStream, HKind::InterfaceRef]), rng.below(6) as u32)).collect()
        } else {
            vec![]
        };
        (sched, j(&P { handles, calls, steps, link: gen_read_cfg(rng), abandoned }))
    }

    fn shrink(&self, body: &Value) -> Vec<Value> {
        let p: P = unj(body);
        let mut out = vec![];
        for c in drop_candidates(&p.calls) {
            let mut q = p.clone();
            q.calls = c;
            out.push(j(&q));
        }
        for c in drop_candidates(&p.abandoned) {
            let mut q = p.clone();
            q.abandoned = c;
            out.push(j(&q));
        }
        // remove the highest handle together with its step
        if p.handles.len() > 1 {
            let last = (p.handles.len() - 1) as u8;
            let mut q = p.clone();
            q.handles.pop();
            q.steps.retain(|(a, _)| !matches!(a, Act::Drop(i) | Act::Shutdown(i) if *i == last));
            out.push(j(&q));
        }
        for f in [|q: &mut P| q.link = LinkCfg::default(), |q: &mut P| q.steps.iter_mut().for_each(|s| s.1 = 0), |q: &mut P| q.handles.iter_mut().skip(1).for_each(|h| *h = HKind::Clone)] {
            let mut q = p.clone();
            f(&mut q);
            if q != p {
                out.push(j(&q));
            }
        }
        out
    }

    fn run(&self, w: &World, body: &Value) -> Verdict {
        let p: P = unj(body);
        let (sock, raw) = sim_pair(w, p.link.clone(), LinkCfg::default(), SockCfg::default());
        let outlink = raw.rx.clone();
        let log = new_log();
        let slots: Shared<Vec<Option<Handle>>> = shared(vec![]);
        let failed = shared(None::<String>);

        let (s2, f2, l2, ww, kinds, abandoned) = (slots.clone(), failed.clone(), log.clone(), w.clone(), p.handles.clone(), p.abandoned.clone());
        let setup = w.spawn("setup", async move {
            let r: zbus::Result<()> = async {
                let conn = zbus::connection::Builder::authenticated_socket(sock, GUID)?.p2p().internal_executor(false).serve_at("/a", A::new(&l2, &ww, 0))?.build().await?;
                let mut v: Vec<Option<Handle>> = vec![];
                for k in &kinds[1..] {
                    let h: Handle = make_handle(&conn, *k).await?;
                    v.push(Some(h));
                }
                for (k, n) in &abandoned {
                    let c2 = conn.clone();
                    let k = *k;
                    cancel_after(&ww, Some(*n), async move {
                        let _ = make_handle(&c2, k).await;
                    })
                    .await;
                }
                v.insert(0, Some(Box::new(conn)));
                *s2.lock().unwrap() = v;
                Ok(())
            }
            .await;
            if let Err(e) = r {
                *f2.lock().unwrap() = Some(e.to_string());
            }
        });
        w.run();
        drop(setup);
        if let Some(e) = failed.lock().unwrap().take() {
            return Verdict::harness(format!("setup failed: {e}"));
        }

        // ---- peer: sends the calls, records replies and EOF with step stamps ----
        #[derive(Default)]
        struct PeerObs {
            replies: Vec<(u32, u64)>,
            eof_step: Option<u64>,
        }
        let pobs = shared(PeerObs::default());
        let (raw2, po2, ww, calls) = (raw.clone(), pobs.clone(), w.clone(), p.calls.clone());
        let peer = w.spawn("peer", async move {
            for (i, us) in calls.iter().enumerate() {
                raw2.write(&RawMsg::call(100 + i as u32, "/a", Some("org.sim.A"), "Sleepy").body(&[Val::U32(*us)]).encode());
            }
            let mut r = PeerReader::new(raw2.clone());
            loop {
                match r.msg().await {
                    Ok(Some(m)) => {
                        if m.mtype == T_RETURN {
                            if let Some(s) = m.reply_serial() {
                                po2.lock().unwrap().replies.push((s, ww.steps()));
                            }
                        }
                    }
                    _ => {
                        po2.lock().unwrap().eof_step = Some(ww.steps());
                        break;
                    }
                }
            }
        });

        // ---- director ----
        // (step, bytes written so far) of every graceful_shutdown() that completed
        let shutdown_done = shared(Vec::<(u64, u64)>::new());
        let mut shutdowns_started = 0usize;
        let mut last_action_step = 0u64;
        let mut tasks = vec![];
        for (act, run) in &p.steps {
            match act {
                Act::Drop(i) => {
                    let h = slots.lock().unwrap()[*i as usize].take();
                    drop(h);
                }
                Act::Shutdown(i) => {
                    let h = slots.lock().unwrap()[*i as usize].take();
                    if let Some(h) = h {
                        if let Ok(conn) = h.downcast::<Connection>() {
                            shutdowns_started += 1;
                            let (sd, ww, ol) = (shutdown_done.clone(), w.clone(), outlink.clone());
                            tasks.push(w.spawn("graceful-shutdown", async move {
                                conn.graceful_shutdown().await;
                                let written = ol.st.lock().unwrap().total_written;
                                sd.lock().unwrap().push((ww.steps(), written));
                            }));
                        }
                    }
                }
            }
            last_action_step = w.steps();
            if *run == 0 {
                w.run();
            } else {
                w.run_steps(*run as u64);
            }
        }
        w.run();

        let all_gone = slots.lock().unwrap().iter().all(|h| h.is_none());
        let po = std::mem::take(&mut *pobs.lock().unwrap());
        let log_v = log.lock().unwrap().clone();
        let final_written = outlink.st.lock().unwrap().total_written;
        let sd = shutdown_done.lock().unwrap().clone();
        let alive_kinds: Vec<HKind> = slots.lock().unwrap().iter().enumerate().filter(|(_, h)| h.is_some()).map(|(i, _)| p.handles[i]).collect();
        drop(tasks);
        drop(peer);
        slots.lock().unwrap().clear();
        raw.tx.drop_wakers();
        raw.rx.drop_wakers();

        // ---- oracle ----
        let started = log_v.iter().filter(|e| e.member == "Sleepy.start").count();
        if all_gone {
            match po.eof_step {
                None => return Verdict::fail("close", "never-closed", format!("every handle is gone (handles {:?}) but the peer never saw the transport close", p.handles)),
                Some(s) if s < last_action_step => {
                    return Verdict::fail("close", "closed-before-last-handle-dropped", format!("peer saw EOF at step {s}, the last handle went at step {last_action_step}"));
                }
                _ => {}
            }
        } else if po.eof_step.is_some() {
            return Verdict::fail("close", "closed-while-handle-alive", format!("peer saw EOF although handles are still alive: {alive_kinds:?}"));
        }
        if started > po.replies.len() {
            return Verdict::fail("reply", "in-flight-handler-lost-its-reply", format!("{started} handlers started but only {} replies reached the peer (handles all gone: {all_gone})", po.replies.len()));
        }
        if shutdowns_started > 0 {
            if all_gone && sd.len() < shutdowns_started {
                return Verdict::fail(
                    "shutdown",
                    if shutdowns_started == 1 { "graceful-shutdown-never-completed" } else { "one-of-several-graceful-shutdowns-never-completed" },
                    format!("every handle is gone and all handlers finished, but only {} of {shutdowns_started} graceful_shutdown() calls completed", sd.len()),
                );
            }
            if !all_gone && !sd.is_empty() {
                return Verdict::fail("shutdown", "graceful-shutdown-completed-early", "graceful_shutdown() completed although another handle is still alive".to_string());
            }
            if let Some((_, written)) = sd.iter().find(|(_, written)| *written != final_written) {
                return Verdict::fail("shutdown", "wrote-after-shutdown-completed", format!("{} bytes were written after graceful_shutdown() had completed", final_written - written));
            }
        }
        let kinds: std::collections::BTreeSet<String> = p.handles.iter().map(|h| format!("{h:?}")).collect();
        let in_flight = started > 0 && po.replies.iter().any(|(_, s)| *s > last_action_step);
        if in_flight {
            w.count("probe.handler_in_flight_when_last_handle_went");
        }
        if shutdowns_started > 0 {
            w.count("probe.graceful_shutdown_used");
        }
        if shutdowns_started > 1 {
            w.count("probe.several_graceful_shutdowns_pending");
        }
        Verdict::ok((p.handles.len() >= 3 && kinds.len() >= 2) || in_flight)
    }
}
