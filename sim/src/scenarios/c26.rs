//! C26 — method dispatch answers each call exactly once and correctly.
use std::collections::BTreeMap;

use serde::{Deserialize, Serialize};
use serde_json::Value;

use super::common::*;
use crate::{
    corpus::{gen_args, methods_a, new_log, norm, Expect, A, B},
    corpus_gen,
    framework::{Scenario, Tier, Verdict},
    kernel::{SchedCfg, World},
    net::{sim_pair, LinkCfg, SockCfg},
    peers::{PeerReader, GUID},
    rng::Rng,
    wire::{RawMsg, Val, T_ERROR, T_RETURN},
};

pub struct C26Scn;
pub static C26: C26Scn = C26Scn;

const PATHS: &[&str] = &["/a", "/a/b"];

#[derive(Clone, Copy, Debug, Serialize, Deserialize, PartialEq)]
enum Stage {
    Good,
    UnknownPath,
    UnknownIface,
    UnknownMember,
    /// one argument has another type
    WrongType,
    /// last argument missing
    Missing,
    /// one argument too many
    Extra,
}

#[derive(Clone, Debug, Serialize, Deserialize, PartialEq)]
struct Call {
    path: u8,
    method: u16,
    stage: Stage,
    args: Vec<Val>,
    no_reply: bool,
    gap: u8,
}

#[derive(Clone, Debug, Serialize, Deserialize, PartialEq)]
struct P {
    calls: Vec<Call>,
    link_in: LinkCfg,
    link_out: LinkCfg,
}

/// One callable method as the oracle sees it: the hand-written corpus interface (at two paths)
/// followed by every method of the generated corpus (each interface at its own path).
struct Target {
    iface: String,
    paths: Vec<String>,
    name: String,
    in_sig: String,
    out_sig: String,
    model: Box<dyn Fn(&[Val]) -> (String, Expect) + Send + Sync>,
    generated: bool,
}

fn targets() -> Vec<Target> {
    let mut v: Vec<Target> = methods_a()
        .into_iter()
        .map(|m| Target {
            iface: "org.sim.A".into(),
            paths: PATHS.iter().map(|p| p.to_string()).collect(),
            name: m.name.into(),
            in_sig: m.in_sig.into(),
            out_sig: m.out_sig.into(),
            model: Box::new(m.model),
            generated: false,
        })
        .collect();
    for (k, member, sig, fallible, _spawn) in corpus_gen::TABLE {
        let fallible = *fallible;
        v.push(Target {
            iface: format!("org.gen.I{k}"),
            paths: vec![format!("/g{k}")],
            name: member.to_string(),
            in_sig: sig.to_string(),
            out_sig: sig.to_string(),
            // generated handlers echo their arguments; fallible ones fail when their leading bool is set
            model: Box::new(move |a: &[Val]| {
                // the handler logs a canonical rendering of what it received
                if fallible && a.first() == Some(&Val::Bool(true)) {
                    (crate::corpus::canon_args(a), Expect::Error("org.freedesktop.DBus.Error.Failed"))
                } else {
                    (crate::corpus::canon_args(a), Expect::Return(a.to_vec()))
                }
            }),
            generated: true,
        });
    }
    // the last three: handlers that depend on one another (`Gate.Hold` returns once `Key.Release` ran); only
    // ever generated together, in this order, so that every call can be answered
    for (iface, path, name, ret) in [("org.sim.Gate", "/gate", "Hold", Some(1u32)), ("org.sim.Gate", "/gate", "Peek", Some(2)), ("org.sim.Key", "/key", "Release", None)] {
        v.push(Target {
            iface: iface.into(),
            paths: vec![path.into()],
            name: name.into(),
            in_sig: String::new(),
            out_sig: if ret.is_some() { "u".into() } else { String::new() },
            model: Box::new(move |_| (String::new(), Expect::Return(ret.map(Val::U32).into_iter().collect()))),
            generated: true,
        });
    }
    v
}
const GATE_TARGETS: usize = 3;

fn mutate_args(rng: &mut Rng, stage: Stage, args: &mut Vec<Val>) -> bool {
    match stage {
        Stage::WrongType => {
            if args.is_empty() {
                return false;
            }
            let i = rng.usize(args.len());
            args[i] = match &args[i] {
                Val::Str(_) => Val::U32(5),
                Val::Variant(_) => Val::U32(5),
                _ => Val::Str("not a number".into()),
            };
            true
        }
        Stage::Missing => args.pop().is_some(),
        Stage::Extra => {
            args.push(Val::U32(99));
            true
        }
        _ => true,
    }
}

impl Scenario for C26Scn {
    fn id(&self) -> &'static str {
        "C26"
    }
    fn rule(&self) -> &'static str {
        "a server exposes the hand-written interface corpus at two paths and the generated corpus (tools/gen_corpus.py: 16 interfaces, ~56 echoing methods with random signatures over a type pool, sync/async, &self/&mut self, fallible or not, spawn on/off) (hand-written: 10 methods: sync/async, &self/&mut self, infallible / fdo::Result / custom DBusError, tuple returns, arrays, variants, nested structs, handlers that sleep on the simulated clock) at two paths; the raw peer sends 1..8 calls (one run in 30: a flood of 70..110 back-to-back calls, more than the dispatch queue of 64 holds), several in flight (one run in eight ends with a `&mut self` handler that only returns once a later call to another interface has run, with a second call to its own interface in between): correct, unknown path / interface / member, one argument of the wrong type, last argument missing, one argument too many, with and without the no-reply flag; seeded splits, write stalls, schedules; oracle: handler log == exactly the calls whose path, interface, member and argument types match (with equal argument values), and per call exactly one reply with the right reply serial, signature and value / error name (none if the flag is set and the handler ran); non-trivial = at least two calls of which one fails at a pre-handler stage and one reaches a handler"
    }
    fn runs(&self, tier: Tier) -> u64 {
        match tier {
            Tier::Quick => 10_000,
            Tier::Thorough => 600_000,
        }
    }
    fn real(&self) -> Vec<&'static str> {
        vec!["object server dispatch task", "ObjectServer::dispatch_call / dispatch_method_call_try / dispatch_call_to_iface", "code generated by #[interface] (argument decoding, reply encoding, error replies)", "Connection::reply / reply_dbus_error", "fdo::Error names"]
    }
    fn stubbed(&self) -> Vec<&'static str> {
        vec!["OS socket", "executor (seeded scheduler)", "clock", "client (scripted raw peer, independent marshaller and reply decoder)"]
    }
    fn assumptions(&self) -> Vec<&'static str> {
        vec!["with the no-reply flag set on an error path the statement is silent: zero or one error reply is accepted", "an extra argument to a method that takes none is accepted either way (InvalidArgs or invocation)"]
    }

    fn generate(&self, rng: &mut Rng, _idx: u64, _tier: Tier) -> (SchedCfg, Value) {
        let ms = targets();
        let n_hand = methods_a().len();
        // one run in 30 is a flood: more calls than the dispatcher's queue (64) holds
        let flood = rng.chance(1, 30);
        let n = if flood { rng.range(70, 110) } else { rng.range(1, 8) };
        let mut calls = vec![];
        for _ in 0..n {
            let method = if rng.chance(1, 2) { rng.usize(n_hand) } else { n_hand + rng.usize(ms.len() - n_hand - GATE_TARGETS) };
            let mut stage = match rng.below(12) {
                0..=5 => Stage::Good,
                6 => Stage::UnknownPath,
                7 => Stage::UnknownIface,
                8 => Stage::UnknownMember,
                9 => Stage::WrongType,
                10 => Stage::Missing,
                _ => Stage::Extra,
            };
            let mut args = gen_args(rng, &ms[method].in_sig);
            if !mutate_args(rng, stage, &mut args) {
                stage = Stage::Good;
            }
            calls.push(Call { path: rng.below(2) as u8, method: method as u16, stage, args, no_reply: rng.chance(1, 6), gap: if flood { 0 } else { rng.below(3) as u8 } });
        }
        // one run in eight ends with a handler that waits for a later call: Gate.Hold (&mut self), a second call
        // to the same interface, then Key.Release which lets Hold return
        if rng.chance(1, 8) {
            let base = ms.len() - GATE_TARGETS;
            for k in 0..GATE_TARGETS {
                calls.push(Call { path: 0, method: (base + k) as u16, stage: Stage::Good, args: vec![], no_reply: false, gap: if flood { 0 } else { rng.below(3) as u8 } });
            }
        }
        let sched = SchedCfg::generate(rng, &["obj_server_task", "method dispatcher", "socket reader"]);
        (sched, j(&P { calls, link_in: gen_read_cfg(rng), link_out: gen_write_cfg(rng) }))
    }

    fn shrink(&self, body: &Value) -> Vec<Value> {
        let p: P = unj(body);
        let mut out = vec![];
        // a Gate.Hold without a later Key.Release could never be answered: such candidates are not tried
        let base = (targets().len() - GATE_TARGETS) as u16;
        let answerable = |calls: &[Call]| calls.iter().enumerate().all(|(i, c)| c.method != base || calls[i + 1..].iter().any(|d| d.method == base + 2 && d.stage == Stage::Good));
        for c in drop_candidates(&p.calls) {
            if !c.is_empty() && answerable(&c) {
                let mut q = p.clone();
                q.calls = c;
                out.push(j(&q));
            }
        }
        for f in [|q: &mut P| q.link_in = LinkCfg::default(), |q: &mut P| q.link_out = LinkCfg::default(), |q: &mut P| q.calls.iter_mut().for_each(|c| c.gap = 0)] {
            let mut q = p.clone();
            f(&mut q);
            if q != p {
                out.push(j(&q));
            }
        }
        out
    }

    fn run(&self, w: &World, body: &Value) -> Verdict {
        let p: P = unj(body);
        let ms = targets();
        let (sock, raw) = sim_pair(w, p.link_in.clone(), p.link_out.clone(), SockCfg::default());
        let log = new_log();
        let ready = shared(None::<Result<(), String>>);

        let (l2, r2, ww) = (log.clone(), ready.clone(), w.clone());
        let server = w.spawn("server", async move {
            let b = zbus::connection::Builder::authenticated_socket(sock, GUID).unwrap().p2p().internal_executor(false);
            let b = b.serve_at("/a", A::new(&l2, &ww, 0)).unwrap().serve_at("/a/b", A::new(&l2, &ww, 1)).unwrap().serve_at("/b", B::new(&l2, &ww, 0)).unwrap();
            let b = corpus_gen::serve_all(b, &l2, &ww).unwrap();
            let gate = crate::corpus::new_gate();
            let b = b.serve_at("/gate", crate::corpus::Gate { state: gate.clone(), log: l2.clone(), w: ww.clone() }).unwrap().serve_at("/key", crate::corpus::Key { state: gate, log: l2.clone(), w: ww.clone() }).unwrap();
            match b.build().await {
                Ok(c) => {
                    *r2.lock().unwrap() = Some(Ok(()));
                    // keep the connection alive until the run is torn down
                    std::future::pending::<()>().await;
                    drop(c);
                }
                Err(e) => *r2.lock().unwrap() = Some(Err(e.to_string())),
            }
        });

        let replies = shared(Vec::<RawMsg>::new());
        let (p2, raw2, rep2, w2) = (p.clone(), raw.clone(), replies.clone(), w.clone());
        let peer = w.spawn("peer", async move {
            let ms = targets();
            for (i, c) in p2.calls.iter().enumerate() {
                for _ in 0..c.gap {
                    w2.yield_now().await;
                }
                let m = &ms[c.method as usize];
                let path = if c.stage == Stage::UnknownPath { "/nowhere" } else { m.paths[c.path as usize % m.paths.len()].as_str() };
                let iface = if c.stage == Stage::UnknownIface { "org.sim.Nope" } else { m.iface.as_str() };
                let member = if c.stage == Stage::UnknownMember { "NoSuchMethod" } else { m.name.as_str() };
                let msg = RawMsg::call(100 + i as u32, path, Some(iface), member).flags(if c.no_reply { 1 } else { 0 }).body(&c.args);
                raw2.write(&msg.encode());
            }
            let mut r = PeerReader::new(raw2.clone());
            while let Ok(Some(m)) = r.msg().await {
                rep2.lock().unwrap().push(m);
            }
        });

        w.run();
        let ok = ready.lock().unwrap().clone();
        let replies_v = replies.lock().unwrap().clone();
        let log_v = log.lock().unwrap().clone();
        drop(server);
        drop(peer);
        raw.tx.drop_wakers();
        raw.rx.drop_wakers();
        match ok {
            Some(Ok(())) => {}
            other => return Verdict::harness(format!("server did not come up: {other:?}")),
        }

        // ---- oracle ----
        let mut by_serial: BTreeMap<u32, Vec<&RawMsg>> = BTreeMap::new();
        for r in &replies_v {
            match r.reply_serial() {
                Some(s) if r.mtype == T_RETURN || r.mtype == T_ERROR => by_serial.entry(s).or_default().push(r),
                _ => return Verdict::fail("stray", "unexpected-message", format!("server sent something that is not a reply: {r:?}")),
            }
        }
        let mut expected_log: Vec<(String, String, String, u32)> = vec![];
        let mut any_pre = false;
        let mut any_handler = false;
        for (i, c) in p.calls.iter().enumerate() {
            let serial = 100 + i as u32;
            let m = &ms[c.method as usize];
            let got = by_serial.remove(&serial).unwrap_or_default();
            let inst = if m.generated { 0 } else { c.path as u32 % m.paths.len() as u32 };
            let name = format!("call {i} {}.{}({:?}) at {} [{:?}{}]", m.iface, m.name, c.args, m.paths[c.path as usize % m.paths.len()], c.stage, if c.no_reply { ", no-reply" } else { "" });
            let lenient_extra = c.stage == Stage::Extra && m.in_sig.is_empty();
            let expect_err = match c.stage {
                Stage::UnknownPath => Some("org.freedesktop.DBus.Error.UnknownObject"),
                Stage::UnknownIface => Some("org.freedesktop.DBus.Error.UnknownInterface"),
                Stage::UnknownMember => Some("org.freedesktop.DBus.Error.UnknownMethod"),
                Stage::WrongType | Stage::Missing | Stage::Extra => Some("org.freedesktop.DBus.Error.InvalidArgs"),
                Stage::Good => None,
            };
            if got.len() > 1 {
                return Verdict::fail("reply", "replied-twice", format!("{name}: {} replies", got.len()));
            }
            if lenient_extra {
                // either outcome; keep the log expectation in step with what happened
                if log_v.iter().filter(|e| e.iface == m.iface && e.member == m.name && e.instance == inst).count() > expected_log.iter().filter(|e| e.0 == m.iface && e.1 == m.name && e.3 == inst).count() {
                    expected_log.push((m.iface.clone(), m.name.clone(), String::new(), inst));
                }
                continue;
            }
            match expect_err {
                Some(err) => {
                    any_pre = true;
                    match got.first() {
                        None if c.no_reply => {}
                        None => return Verdict::fail("reply", format!("no-reply-{:?}", c.stage), format!("{name}: no reply at all")),
                        Some(r) => {
                            if r.mtype != T_ERROR || r.error_name() != Some(err) {
                                return Verdict::fail(
                                    "reply",
                                    format!("wrong-error-{:?}", c.stage),
                                    format!("{name}: expected error {err}, got type {} name {:?} body {:?}", r.mtype, r.error_name(), r.body_vals().ok()),
                                );
                            }
                        }
                    }
                }
                None => {
                    any_handler = true;
                    let (args_txt, exp) = (m.model)(&c.args);
                    expected_log.push((m.iface.clone(), m.name.clone(), args_txt, inst));
                    match (got.first(), c.no_reply) {
                        (None, true) => {}
                        (Some(_), true) => return Verdict::fail("reply", "reply-despite-no-reply-flag", format!("{name}: a reply was sent although none is expected")),
                        (None, false) => return Verdict::fail("reply", "no-reply-Good", format!("{name}: handler call got no reply")),
                        (Some(r), false) => match exp {
                            Expect::Return(vals) => {
                                if r.mtype != T_RETURN {
                                    return Verdict::fail("reply", "error-instead-of-return", format!("{name}: got error {:?} {:?}", r.error_name(), r.body_vals().ok()));
                                }
                                if r.signature() != m.out_sig {
                                    return Verdict::fail("reply", "out-signature", format!("{name}: reply signature {:?}, declared {:?}", r.signature(), m.out_sig));
                                }
                                match r.body_vals() {
                                    Ok(v) if v.iter().map(norm).collect::<Vec<_>>() == vals.iter().map(norm).collect::<Vec<_>>() => {}
                                    other => return Verdict::fail("reply", "wrong-value", format!("{name}: reply {other:?}, expected {vals:?}")),
                                }
                            }
                            Expect::Error(en) => {
                                if r.mtype != T_ERROR || r.error_name() != Some(en) {
                                    return Verdict::fail("reply", "wrong-handler-error", format!("{name}: expected error {en}, got type {} {:?}", r.mtype, r.error_name()));
                                }
                            }
                        },
                    }
                }
            }
        }
        if let Some((s, _)) = by_serial.iter().next() {
            return Verdict::fail("stray", "reply-to-unknown-serial", format!("reply to serial {s} which was never sent"));
        }
        // handler log == expected invocations (as multisets)
        let mut got_log: Vec<(String, String, String, u32)> =
            log_v.iter().filter(|e| e.iface != "org.sim.B" && e.member != "Sleepy.start").map(|e| (e.iface.to_string(), e.member.to_string(), e.args.clone(), e.instance)).collect();
        let mut exp_sorted = expected_log.clone();
        // lenient entries carry no argument text
        for e in &mut got_log {
            if exp_sorted.iter().any(|x| x.0 == e.0 && x.1 == e.1 && x.3 == e.3 && x.2.is_empty()) {
                e.2 = String::new();
            }
        }
        got_log.sort();
        exp_sorted.sort();
        if got_log != exp_sorted {
            let extra: Vec<_> = got_log.iter().filter(|g| !exp_sorted.contains(g)).collect();
            let missing: Vec<_> = exp_sorted.iter().filter(|g| !got_log.contains(g)).collect();
            let disc = if !extra.is_empty() { "handler-ran-unexpectedly" } else { "handler-did-not-run" };
            return Verdict::fail("handler", disc, format!("handler invocations differ: unexpected {extra:?}, missing {missing:?}"));
        }
        if any_pre && any_handler {
            w.count("probe.mixed_error_and_handler_calls");
        }
        w.count_n("probe.generated_corpus_handler_invocations", log_v.iter().filter(|e| e.iface.starts_with("org.gen.")).count() as u64);
        Verdict::ok(any_pre && any_handler)
    }
}
