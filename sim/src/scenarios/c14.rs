//! C14 — the byte stream is framed into exactly the messages that were sent.
use std::os::fd::AsFd;

use futures_lite::StreamExt;
use serde::{Deserialize, Serialize};
use serde_json::Value;
use zbus::MessageStream;

use super::common::*;
use crate::{
    framework::{Scenario, Tier, Verdict},
    kernel::{SchedCfg, World},
    net::{fd_tag, make_fd, sim_pair, Chunking, LinkCfg, SockCfg},
    peers::{client_sasl_bytes, euid, serve_sasl, PeerReader, TailAt},
    rng::Rng,
    wire::{RawMsg, Val, F_UNIX_FDS},
};

pub struct C14Scn;
pub static C14: C14Scn = C14Scn;

#[derive(Clone, Copy, Debug, Serialize, Deserialize, PartialEq)]
enum Role {
    Client,
    Server,
    Authed,
    /// bus-mode client: the peer also answers `Hello`, possibly in the same write as the first messages
    BusClient,
}

#[derive(Clone, Debug, Serialize, Deserialize, PartialEq)]
struct Msg {
    len: u32,
    nfds: u8,
    big: bool,
    fill: u8,
    /// Sent in the same write as the previous message (only honoured for fd-less messages).
    glue: bool,
    /// Before this message's write the peer: 0 = goes on, 1 = yields, n = sleeps (n-1) x 50 us.
    gap: u8,
    /// Non-zero: the message carries this (unknown) type code and must be skipped by the receiver,
    /// together with its fds.
    #[serde(default)]
    unknown_type: u8,
}

#[derive(Clone, Debug, Serialize, Deserialize, PartialEq)]
struct P {
    role: Role,
    can_fd: bool,
    msgs: Vec<Msg>,
    /// How many leading messages travel in the same write as the last handshake line (cut at the
    /// first fd-carrying one: a conformant sender starts a new `sendmsg` for those).
    n_tail: usize,
    link: LinkCfg,
    /// After the messages, a header declaring this body length (> 128 MiB total) + 64 junk bytes.
    oversize: Option<u32>,
}

fn build_msg(i: usize, m: &Msg) -> (Vec<u8>, Vec<u64>) {
    let data: Vec<Val> = (0..m.len).map(|k| Val::Byte(m.fill.wrapping_add(k as u8))).collect();
    let mut r = RawMsg::signal(100 + i as u32, "/c14/obj", "org.c14.Iface", &format!("M{i}"))
        .big(m.big)
        .body(&[Val::U32(i as u32), Val::Array("y".into(), data)]);
    if m.nfds > 0 {
        r = r.with(F_UNIX_FDS, Val::U32(m.nfds as u32));
    }
    if m.unknown_type != 0 {
        r.mtype = m.unknown_type;
    }
    let tags = (0..m.nfds as u64).map(|k| 0xC14_0000 + (i as u64) * 16 + k).collect();
    (r.encode(), tags)
}

#[derive(Debug)]
enum Obs {
    Msg { bytes: Vec<u8>, fds: Vec<u64>, seq: zbus::message::Sequence },
    Err(String),
    End,
    BuildFailed(String),
}

impl Scenario for C14Scn {
    fn id(&self) -> &'static str {
        "C14"
    }
    fn rule(&self) -> &'static str {
        "plan = role (p2p client / p2p server / pre-authenticated / bus client whose Hello reply shares a write with the first messages) x 1..6 generated messages (0..2 KiB bodies, 0..3 fds, both endiannesses, some of an unknown type that must be skipped together with their fds) x read-split profile (whole, 1-byte, max-n, seeded per-read sizes, enumerated cut points) x delivery latency x handshake leftovers (messages and fds in the same write as the last handshake line) x optional oversize header; non-trivial = at least one message was split across reads or was carried in the handshake leftovers; distinct = distinct (plan, event log) pairs"
    }
    fn runs(&self, tier: Tier) -> u64 {
        match tier {
            Tier::Quick => 24_000,
            Tier::Thorough => 1_500_000,
        }
    }
    fn real(&self) -> Vec<&'static str> {
        vec!["zbus connection builder", "client and server SASL handshake", "ReadHalf::receive_message framing", "socket reader task", "MessageStream", "Message::from_raw_parts", "zvariant decoding of header"]
    }
    fn stubbed(&self) -> Vec<&'static str> {
        vec!["OS socket (SimSocket)", "executor (seeded scheduler)", "clock", "peer (scripted raw peer with an independent marshaller)"]
    }
    fn assumptions(&self) -> Vec<&'static str> {
        vec!["in a quarter of the runs a read may cross several fd-bearing segments (a transport more liberal than Linux); otherwise recvmsg semantics follow Linux unix stream sockets: fds arrive with the first byte of the segment they were sent with; a read may run from fd-less segments into one fd-bearing segment and stops after it"]
    }

    fn generate(&self, rng: &mut Rng, idx: u64, tier: Tier) -> (SchedCfg, Value) {
        let role = *rng.pick(&[Role::Client, Role::Client, Role::Server, Role::Authed, Role::BusClient]);
        let can_fd = rng.chance(3, 4);
        let n = rng.range(1, 6) as usize;
        let mut msgs = vec![];
        for _ in 0..n {
            let len = match rng.below(6) {
                0 => 0,
                1..=3 => rng.range(0, 64) as u32,
                4 => rng.range(64, 600) as u32,
                _ => rng.range(600, 2048) as u32,
            };
            msgs.push(Msg {
                len,
                nfds: if can_fd && rng.chance(1, 3) { rng.range(1, 3) as u8 } else { 0 },
                big: rng.chance(1, 4),
                fill: rng.below(256) as u8,
                glue: rng.chance(1, 2),
                gap: if rng.chance(1, 2) { 0 } else { rng.range(1, 4) as u8 },
                unknown_type: if rng.chance(1, 8) { rng.range(5, 255) as u8 } else { 0 },
            });
        }
        let n_tail = if role == Role::Authed { 0 } else { rng.range(0, n as u64) as usize };
        let mut link = gen_read_cfg(rng);
        link.merge_fd_segments = rng.chance(1, 4);
        // systematic part: explicit cut points over the whole inbound stream
        let systematic = match tier {
            Tier::Quick => idx % 4 == 0,
            Tier::Thorough => idx % 3 == 0,
        };
        if systematic {
            link.read_chunking = Chunking::Cuts;
            let total: u64 = 60 + msgs.iter().map(|m| 80 + m.len as u64).sum::<u64>();
            let k = rng.range(1, 3);
            link.cuts = (0..k).map(|_| rng.range(1, total)).collect();
            link.cuts.sort_unstable();
        }
        let oversize = if rng.chance(1, 8) { Some(rng.range(128 * 1024 * 1024 - 8, u32::MAX as u64) as u32) } else { None };
        let sched = SchedCfg::generate(rng, &["socket reader", "consumer"]);
        (sched, j(&P { role, can_fd, msgs, n_tail, link, oversize }))
    }

    fn shrink(&self, body: &Value) -> Vec<Value> {
        let p: P = unj(body);
        let mut out = vec![];
        for ms in drop_candidates(&p.msgs) {
            if ms.is_empty() {
                continue;
            }
            let mut q = p.clone();
            q.n_tail = q.n_tail.min(ms.len());
            q.msgs = ms;
            out.push(j(&q));
        }
        if p.n_tail > 0 {
            let mut q = p.clone();
            q.n_tail -= 1;
            out.push(j(&q));
        }
        for (i, m) in p.msgs.iter().enumerate() {
            if m.len > 0 {
                let mut q = p.clone();
                q.msgs[i].len = m.len / 2;
                out.push(j(&q));
            }
            if m.nfds > 1 {
                let mut q = p.clone();
                q.msgs[i].nfds -= 1;
                out.push(j(&q));
            }
            if m.big || m.glue || m.gap > 0 {
                let mut q = p.clone();
                q.msgs[i].big = false;
                q.msgs[i].glue = false;
                q.msgs[i].gap = 0;
                out.push(j(&q));
            }
            if m.unknown_type != 0 {
                let mut q = p.clone();
                q.msgs[i].unknown_type = 0;
                out.push(j(&q));
            }
        }
        if p.link != LinkCfg::default() {
            let mut q = p.clone();
            q.link = LinkCfg::default();
            out.push(j(&q));
            let mut q = p.clone();
            q.link.latency_steps = 0;
            out.push(j(&q));
        }
        if p.oversize.is_some() {
            let mut q = p.clone();
            q.oversize = None;
            out.push(j(&q));
        }
        out
    }

    fn run(&self, w: &World, body: &Value) -> Verdict {
        let p: P = unj(body);
        let sock_cfg = SockCfg { can_pass_fd: p.can_fd, uid: Some(euid()), mech_anonymous: false };
        let (sock, raw) = sim_pair(w, p.link.clone(), LinkCfg::default(), sock_cfg);
        let inbound = raw.tx.clone();
        let obs = shared(Vec::<Obs>::new());

        // messages
        let encoded: Vec<(Vec<u8>, Vec<u64>)> = p.msgs.iter().enumerate().map(|(i, m)| build_msg(i, m)).collect();
        let fds_ok = p.can_fd;
        // messages of unknown type are skipped (C13), everything else is yielded
        let expected: Vec<(Vec<u8>, Vec<u64>)> = encoded
            .iter()
            .zip(p.msgs.iter())
            .filter(|(_, m)| m.unknown_type == 0)
            .map(|((b, t), _)| (b.clone(), if fds_ok { t.clone() } else { vec![] }))
            .collect();

        // consumer (real zbus)
        let o2 = obs.clone();
        let role = p.role;
        let consumer = w.spawn("consumer", async move {
            let conn = match role {
                Role::Client => build_client(sock).await,
                Role::Server => build_server(sock).await,
                Role::Authed => build_authed(sock).await,
                Role::BusClient => build_bus_client(sock).await,
            };
            let conn = match conn {
                Ok(c) => c,
                Err(e) => {
                    o2.lock().unwrap().push(Obs::BuildFailed(e.to_string()));
                    return;
                }
            };
            let mut s = MessageStream::from(&conn);
            while let Some(item) = s.next().await {
                match item {
                    Ok(m) => {
                        let fds = m.data().fds().iter().map(|f| fd_tag(f.as_fd())).collect();
                        o2.lock().unwrap().push(Obs::Msg { bytes: m.data().bytes().to_vec(), fds, seq: m.recv_position() });
                    }
                    Err(e) => o2.lock().unwrap().push(Obs::Err(e.to_string())),
                }
            }
            o2.lock().unwrap().push(Obs::End);
        });

        // scripted peer
        let p2 = p.clone();
        let enc2 = encoded.clone();
        let raw2 = raw.clone();
        let ww = w.clone();
        let peer = w.spawn("peer", async move {
            let mut r = PeerReader::new(raw2.clone());
            // tail: fd-less messages coalesced with the last handshake line
            let mut n_tail = 0;
            while n_tail < p2.n_tail.min(enc2.len()) && !(p2.can_fd && !enc2[n_tail].1.is_empty()) {
                n_tail += 1;
            }
            let mut tail = vec![];
            for (b, _) in &enc2[..n_tail] {
                tail.extend_from_slice(b);
            }
            match p2.role {
                Role::Client => {
                    if let Err(e) = serve_sasl(&mut r, p2.can_fd, &tail, vec![], TailAt::Agree).await {
                        ww.log(|| format!("peer: handshake failed: {e}"));
                        return;
                    }
                }
                Role::Server => {
                    let bytes = client_sasl_bytes(euid(), p2.can_fd, &tail);
                    raw2.write(&bytes);
                }
                Role::Authed => n_tail = 0,
                Role::BusClient => {
                    if let Err(e) = serve_sasl(&mut r, p2.can_fd, &[], vec![], TailAt::AfterBegin).await {
                        ww.log(|| format!("peer: handshake failed: {e}"));
                        return;
                    }
                    // the client pipelines Hello with BEGIN: answer it, the first fd-less messages ride along
                    let hello = match r.msg().await {
                        Ok(Some(m)) => m,
                        _ => return,
                    };
                    let mut out = RawMsg::ret(9, hello.serial).sender("org.freedesktop.DBus").destination(":1.100").body(&[Val::str(":1.100")]).encode();
                    out.extend_from_slice(&tail);
                    raw2.write(&out);
                }
            }
            // the rest: every fd-carrying message starts its own write, carrying its fds
            let mut pending: Vec<u8> = vec![];
            for (i, (b, tags)) in enc2.iter().enumerate().skip(n_tail) {
                let has_fds = p2.can_fd && !tags.is_empty();
                if has_fds || !p2.msgs[i].glue || p2.msgs[i].gap > 0 {
                    if !pending.is_empty() {
                        raw2.write(&pending);
                        pending.clear();
                    }
                }
                match p2.msgs[i].gap {
                    0 => {}
                    1 => ww.yield_now().await,
                    n => ww.sleep_ns((n as u64 - 1) * 50_000).await,
                }
                if has_fds {
                    raw2.write_fds(b, tags.iter().map(|t| make_fd(*t)).collect());
                } else {
                    pending.extend_from_slice(b);
                }
            }
            if !pending.is_empty() {
                raw2.write(&pending);
            }
            if let Some(body_len) = p2.oversize {
                let mut hdr = RawMsg::signal(999, "/c14/obj", "org.c14.Iface", "Big").encode();
                // keep the fields array, declare a huge body
                hdr[4..8].copy_from_slice(&body_len.to_le_bytes());
                let mut junk = hdr[..16].to_vec();
                junk.extend_from_slice(&[0xAA; 64]);
                raw2.write(&junk);
            }
            // keep reading (and discarding) what zbus writes so nothing blocks
            while let Ok((b, _)) = raw2.read().await {
                if b.is_empty() {
                    break;
                }
            }
        });

        w.run();

        // ---- oracle ----
        let obs_v = std::mem::take(&mut *obs.lock().unwrap());
        let st = inbound.st.lock().unwrap();
        let reads = st.reads_after_bytes.clone();
        let total_read = st.total_read;
        drop(st);
        drop(consumer);
        drop(peer);
        inbound.drop_wakers();
        raw.rx.drop_wakers();

        if let Some(Obs::BuildFailed(e)) = obs_v.first() {
            return Verdict::fail("build", "handshake-failed", format!("connection build failed against a conformant peer: {e}"));
        }
        let mut got: Vec<(&Vec<u8>, &Vec<u64>, zbus::message::Sequence)> = vec![];
        let mut errs = vec![];
        for o in &obs_v {
            match o {
                Obs::Msg { bytes, fds, seq } => {
                    if !errs.is_empty() {
                        return Verdict::fail("order", "msg-after-error", "a message was yielded after an error item");
                    }
                    got.push((bytes, fds, *seq));
                }
                Obs::Err(e) => errs.push(e.clone()),
                _ => {}
            }
        }
        // every yielded message must be the next expected one
        for (i, (bytes, fds, _)) in got.iter().enumerate() {
            let Some((eb, ef)) = expected.get(i) else {
                return Verdict::fail("extra", "more-than-sent", format!("yielded {} messages, sent {}", got.len(), expected.len()));
            };
            if *bytes != eb {
                return Verdict::fail("bytes", "not-identical", format!("message {i} differs from what was sent ({} vs {} bytes)", bytes.len(), eb.len()));
            }
            if *fds != ef {
                return Verdict::fail("fds", "wrong-fds", format!("message {i} carries fds {fds:x?}, sent with {ef:x?}"));
            }
        }
        for k in 1..got.len() {
            if got[k].2 <= got[k - 1].2 {
                return Verdict::fail("seq", "recv-position-not-increasing", format!("recv_position of message {k} is not above its predecessor"));
            }
        }
        if got.len() < expected.len() {
            let why = errs.first().cloned().unwrap_or_else(|| "no error item".into());
            let missing = got.len();
            let disc = if errs.is_empty() { "missing-no-error".to_string() } else { format!("missing-after-error:{}", crate::framework::panic_disc(&why)) };
            return Verdict::fail("missing", disc, format!("message {missing} of {} never yielded; stream said: {why}", expected.len()));
        }
        if p.oversize.is_some() {
            if errs.is_empty() {
                return Verdict::fail("oversize", "no-error", "a header declaring more than 128 MiB produced no error item");
            }
            // nothing past the 16-byte header may have been read
            let hdr_end: u64 = inbound.st.lock().unwrap().total_written - 64;
            // (unless the handshake's own 1 KiB reads had already swallowed it as leftovers)
            if reads.contains(&hdr_end) && total_read > hdr_end {
                return Verdict::fail("oversize", "read-past-header", format!("read {} bytes past the oversize header", total_read - hdr_end));
            }
        } else if !errs.is_empty() {
            return Verdict::fail("error", "spurious-error", format!("valid stream produced an error item: {}", errs[0]));
        }

        // non-trivial: a read boundary strictly inside a message, or leftovers
        let total_written = inbound.st.lock().unwrap().total_written;
        let msgs_len: u64 = encoded.iter().map(|(b, _)| b.len() as u64).sum::<u64>() + if p.oversize.is_some() { 80 } else { 0 };
        let base = total_written.saturating_sub(msgs_len);
        let mut off = base;
        let mut split = false;
        for (b, _) in &encoded {
            let (s, e) = (off, off + b.len() as u64);
            if reads.iter().any(|r| *r > s && *r < e) {
                split = true;
            }
            off = e;
        }
        if split {
            w.count("probe.message_split_across_reads");
        }
        let leftovers = p.n_tail > 0 && p.role != Role::Authed;
        if leftovers {
            w.count("probe.messages_in_handshake_write");
        }
        Verdict::ok(split || leftovers)
    }
}
