//! Helpers shared by scenarios: building zbus connections over simulated sockets, seeded link
//! configurations, small utilities.
use std::sync::{Arc, Mutex};

use zbus::{connection::Builder, Connection};

use crate::{
    net::{Chunking, LinkCfg, SimSocket},
    peers::GUID,
    rng::Rng,
};

pub type Shared<T> = Arc<Mutex<T>>;

pub fn shared<T>(v: T) -> Shared<T> {
    Arc::new(Mutex::new(v))
}

pub async fn build_client(sock: SimSocket) -> zbus::Result<Connection> {
    Builder::socket(sock).p2p().internal_executor(false).build().await
}

pub async fn build_server(sock: SimSocket) -> zbus::Result<Connection> {
    Builder::socket(sock).server(GUID)?.p2p().internal_executor(false).build().await
}

pub async fn build_authed(sock: SimSocket) -> zbus::Result<Connection> {
    Builder::authenticated_socket(sock, GUID)?.p2p().internal_executor(false).build().await
}

/// Bus-mode client (performs `Hello` against whatever is on the socket).
pub async fn build_bus_client(sock: SimSocket) -> zbus::Result<Connection> {
    Builder::socket(sock).internal_executor(false).build().await
}

/// A seeded inbound link profile.
pub fn gen_read_cfg(rng: &mut Rng) -> LinkCfg {
    let mut c = LinkCfg::default();
    c.read_chunking = match rng.below(10) {
        0..=1 => Chunking::Whole,
        2 => Chunking::OneByte,
        3..=4 => Chunking::Max(rng.range(1, 40) as u16),
        _ => Chunking::Random,
    };
    if rng.chance(1, 2) {
        c.latency_unit_ns = *rng.pick(&[1_000u64, 100_000, 300_000, 1_000_000]);
        c.latency_steps = rng.range(1, 4) as u8;
    }
    c.yield_after_io = rng.chance(1, 2);
    c
}

/// A seeded outbound (zbus writes) link profile.
pub fn gen_write_cfg(rng: &mut Rng) -> LinkCfg {
    let mut c = LinkCfg::default();
    c.partial_writes = rng.chance(2, 3);
    c.write_stalls = rng.chance(1, 2);
    if rng.chance(1, 3) {
        c.latency_unit_ns = *rng.pick(&[1_000u64, 200_000, 1_000_000]);
        c.latency_steps = rng.range(1, 3) as u8;
    }
    c.yield_after_io = rng.chance(1, 2);
    c
}

pub fn j<T: serde::Serialize>(v: &T) -> serde_json::Value {
    serde_json::to_value(v).expect("to json")
}

pub fn unj<T: serde::de::DeserializeOwned>(v: &serde_json::Value) -> T {
    serde_json::from_value(v.clone()).expect("plan body does not match scenario")
}

/// Remove each element of a list in turn (first halves, then singles): ddmin-style candidates.
pub fn drop_candidates<T: Clone>(xs: &[T]) -> Vec<Vec<T>> {
    let mut out = vec![];
    let n = xs.len();
    if n >= 4 {
        out.push(xs[..n / 2].to_vec());
        out.push(xs[n / 2..].to_vec());
    }
    for i in (0..n).rev() {
        let mut v = xs.to_vec();
        v.remove(i);
        out.push(v);
    }
    out
}

/// Two real zbus connections wired back to back over simulated sockets (both pre-authenticated).
pub async fn build_pair(a: SimSocket, b: SimSocket) -> zbus::Result<(Connection, Connection)> {
    let ca = Builder::authenticated_socket(a, GUID)?.p2p().internal_executor(false).build().await?;
    let cb = Builder::authenticated_socket(b, GUID)?.p2p().internal_executor(false).build().await?;
    Ok((ca, cb))
}

/// Interfaces and child nodes of the top-level node of an introspection document.
pub fn parse_introspection(xml: &str) -> (Vec<String>, Vec<String>) {
    let mut depth = 0;
    let (mut ifaces, mut children) = (vec![], vec![]);
    let attr = |tag: &str| -> Option<String> {
        let i = tag.find("name=\"")? + 6;
        let j = tag[i..].find('"')? + i;
        Some(tag[i..j].to_string())
    };
    let mut rest = xml;
    while let Some(i) = rest.find('<') {
        let Some(j) = rest[i..].find('>') else { break };
        let tag = &rest[i + 1..i + j];
        rest = &rest[i + j + 1..];
        if tag.starts_with('!') || tag.starts_with('?') {
            continue;
        }
        if tag.starts_with("/node") {
            depth -= 1;
        } else if tag.starts_with("node") {
            if depth == 1 {
                if let Some(n) = attr(tag) {
                    children.push(n);
                }
            }
            if !tag.ends_with('/') {
                depth += 1;
            }
        } else if tag.starts_with("interface") && depth == 1 {
            if let Some(n) = attr(tag) {
                ifaces.push(n);
            }
        }
    }
    ifaces.sort();
    children.sort();
    (ifaces, children)
}

/// Cancellation as a fault: polls `inner` at most `polls` times that return `Pending`, then drops it (what a
/// `select!` arm, a timeout wrapper or a dropped task does to a future at one of its await points).
pub struct CancelAfter<F> {
    inner: Option<std::pin::Pin<Box<F>>>,
    polls: u32,
    world: crate::kernel::World,
}
pub fn cancel_after<F: std::future::Future<Output = ()>>(world: &crate::kernel::World, polls: Option<u32>, f: F) -> CancelAfter<F> {
    CancelAfter { inner: Some(Box::pin(f)), polls: polls.unwrap_or(u32::MAX), world: world.clone() }
}
impl<F: std::future::Future<Output = ()>> std::future::Future for CancelAfter<F> {
    type Output = ();
    fn poll(mut self: std::pin::Pin<&mut Self>, cx: &mut std::task::Context<'_>) -> std::task::Poll<()> {
        let this = &mut *self;
        let Some(f) = this.inner.as_mut() else { return std::task::Poll::Ready(()) };
        match f.as_mut().poll(cx) {
            std::task::Poll::Ready(()) => {
                this.inner = None;
                std::task::Poll::Ready(())
            }
            std::task::Poll::Pending => {
                if this.polls == 0 {
                    this.world.count("fault.cancel_task");
                    this.world.log(|| "FAULT: task cancelled at an await point".to_string());
                    this.inner = None;
                    return std::task::Poll::Ready(());
                }
                this.polls -= 1;
                std::task::Poll::Pending
            }
        }
    }
}
impl<F> Unpin for CancelAfter<F> {}
