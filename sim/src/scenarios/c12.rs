//! C12 — parsing hostile message bytes never crashes (scoped to corruption of a live stream).
use futures_lite::StreamExt;
use serde::{Deserialize, Serialize};
use serde_json::Value;
use zbus::{MatchRule, MessageStream};

use super::common::*;
use crate::{
    corpus::{new_log, A},
    framework::{Scenario, Tier, Verdict},
    kernel::{SchedCfg, World},
    net::{sim_pair, LinkCfg, SockCfg},
    peers::{PeerReader, GUID},
    rng::Rng,
    wire::{frame_len, RawMsg, Val, F_DESTINATION, F_ERROR_NAME, F_INTERFACE, F_MEMBER, F_PATH, F_REPLY_SERIAL, F_SENDER, F_SIGNATURE, F_UNIX_FDS, T_CALL},
};

pub struct C12Scn;
pub static C12: C12Scn = C12Scn;

const BAD_STRINGS: &[&str] = &[
    "", "/", "//", "/a/", "/a//b", "a", ".", "a.", ".a", "a..b", "1a.b", "a.1b", "a b.c", "org.x", ":", ":1", ":1.", "ünï.cödé", "/\u{1}", "a.b\0c", "-", "_", "org.freedesktop.DBus",
];

#[derive(Clone, Debug, Serialize, Deserialize, PartialEq)]
enum Mut {
    /// replace the string value of a header field (by code) with a hostile string (index, or a long one)
    FieldStr(u8, u8),
    /// give a header field a value of another type
    FieldType(u8, u8),
    /// drop a header field
    DropField(u8),
    /// duplicate a header field
    DupField(u8),
    /// replace the signature field
    Sig(u8),
    /// flip `n` seeded bits in the header-fields region (after encoding)
    FlipHeaderBits(u8, u32),
    /// flip `n` seeded bits in the body (after encoding)
    FlipBodyBits(u8, u32),
    /// declared body length changed by this delta, frame kept consistent by padding/truncating
    BodyLen(i16),
    /// fields array length grown to swallow this many following bytes
    FieldsLen(u8),
    /// endianness byte replaced
    Endian(u8),
    /// protocol version / flags / type bytes
    HeaderByte(u8, u8),
    /// UNIX_FDS field with this count (no fds attached)
    Fds(u32),
    /// reply serial zero
    ZeroReplySerial,
    /// body replaced by seeded garbage of this length under the original signature
    GarbageBody(u16, u32),
    /// an extra header field (code) whose value nests this many containers of a kind
    /// (0 structs, 1 arrays, 2 variants, 3 alternating struct/array) around a byte
    DeepField(u8, u8, u8),
}

#[derive(Clone, Debug, Serialize, Deserialize, PartialEq)]
struct Item {
    /// 0 signal, 1 call to the object server, 2 method return to the pending call, 3 error to the pending call
    kind: u8,
    big: bool,
    body: u8,
    muts: Vec<Mut>,
}

#[derive(Clone, Debug, Serialize, Deserialize, PartialEq)]
struct P {
    items: Vec<Item>,
    link: LinkCfg,
}

fn bad_sig(k: u8) -> String {
    match k % 12 {
        0 => "a".into(),
        1 => "(".into(),
        2 => "{sv}".into(),
        3 => "a{vs}".into(),
        4 => "i".repeat(256),
        5 => format!("{}i", "a".repeat(33)),
        6 => format!("{}i{}", "(".repeat(33), ")".repeat(33)),
        7 => "()".into(),
        8 => "z".into(),
        9 => "a{s}".into(),
        10 => format!("{}i", "a".repeat(32)),
        _ => "sss".into(),
    }
}

fn body_vals(k: u8) -> Vec<Val> {
    match k % 6 {
        0 => vec![],
        1 => vec![Val::str("hello"), Val::U32(7)],
        2 => vec![Val::Array("s".into(), vec![Val::str("a"), Val::str("b")]), Val::Variant(Box::new(Val::Struct(vec![Val::I32(1), Val::str("x")])))],
        3 => vec![Val::dict_sv(vec![("k".into(), Val::U64(9)), ("l".into(), Val::str("v"))])],
        4 => vec![Val::Path("/some/path".into()), Val::Sig("a{sv}".into()), Val::Bool(true), Val::F64(2.5)],
        _ => vec![Val::str("org.c12.Name"), Val::str(""), Val::str(":1.7")],
    }
}

fn build(item: &Item, idx: usize, pending_serial: u32) -> Vec<u8> {
    let serial = 300 + idx as u32;
    let mut m = match item.kind % 4 {
        0 => RawMsg::signal(serial, "/c12/sig", "org.c12.Sig", "Happened").sender(":1.9"),
        1 => RawMsg::call(serial, "/a", Some("org.sim.A"), "Concat").sender(":1.9"),
        2 => RawMsg::ret(serial, pending_serial).sender(":1.9"),
        _ => RawMsg::error(serial, pending_serial, "org.c12.Error.Bad").sender(":1.9"),
    }
    .big(item.big)
    .body(&body_vals(item.body));
    let mut post: Vec<&Mut> = vec![];
    for mu in &item.muts {
        match mu {
            Mut::FieldStr(code, s) => {
                let text = if *s == 255 { "x".repeat(300) } else if *s == 254 { format!("/{}", "a/".repeat(200)) } else { BAD_STRINGS[*s as usize % BAD_STRINGS.len()].to_string() };
                let code = [F_PATH, F_INTERFACE, F_MEMBER, F_ERROR_NAME, F_DESTINATION, F_SENDER][*code as usize % 6];
                let v = if code == F_PATH { Val::Path(text) } else { Val::Str(text) };
                m = m.with(code, v);
            }
            Mut::FieldType(code, t) => {
                let code = 1 + code % 9;
                let v = match t % 6 {
                    0 => Val::U32(5),
                    1 => Val::str("text"),
                    2 => Val::Byte(1),
                    3 => Val::Array("y".into(), vec![Val::Byte(1)]),
                    4 => Val::Struct(vec![Val::U32(1), Val::U32(2)]),
                    _ => Val::Variant(Box::new(Val::U32(3))),
                };
                m = m.with(code, v);
            }
            Mut::DropField(code) => {
                let code = 1 + code % 9;
                m.fields.retain(|(c, _)| *c != code);
            }
            Mut::DupField(code) => {
                let code = 1 + code % 9;
                if let Some(f) = m.fields.iter().find(|(c, _)| *c == code).cloned() {
                    m.fields.push(f);
                }
            }
            Mut::Sig(k) => m = m.with(F_SIGNATURE, Val::Sig(bad_sig(*k))),
            Mut::Fds(n) => m = m.with(F_UNIX_FDS, Val::U32(*n)),
            Mut::ZeroReplySerial => m = m.with(F_REPLY_SERIAL, Val::U32(0)),
            Mut::GarbageBody(len, seed) => {
                let mut r = Rng::new(*seed as u64);
                m.body = r.bytes(*len as usize);
            }
            Mut::DeepField(code, depth, kind) => {
                let mut v = Val::Byte(1);
                for d in 0..*depth {
                    v = match (kind % 4, d % 2) {
                        (0, _) | (3, 0) => Val::Struct(vec![v]),
                        (1, _) | (3, 1) => {
                            let sig = v.sig();
                            Val::Array(sig, vec![v])
                        }
                        _ => Val::Variant(Box::new(v)),
                    };
                }
                m.fields.push((*code, v));
            }
            other => post.push(other),
        }
    }
    let mut bytes = m.encode();
    let fields_end = {
        let b: [u8; 4] = bytes[12..16].try_into().unwrap();
        16 + if item.big { u32::from_be_bytes(b) } else { u32::from_le_bytes(b) } as usize
    };
    let body_start = (fields_end + 7) & !7;
    for mu in post {
        match mu {
            Mut::FlipHeaderBits(n, seed) => {
                let mut r = Rng::new(*seed as u64);
                for _ in 0..*n {
                    if fields_end > 16 {
                        let pos = 16 + r.usize(fields_end - 16);
                        bytes[pos] ^= 1 << r.below(8);
                    }
                }
            }
            Mut::FlipBodyBits(n, seed) => {
                let mut r = Rng::new(*seed as u64);
                for _ in 0..*n {
                    if bytes.len() > body_start {
                        let pos = body_start + r.usize(bytes.len() - body_start);
                        bytes[pos] ^= 1 << r.below(8);
                    }
                }
            }
            Mut::BodyLen(d) => {
                let cur = (bytes.len() - body_start) as i64;
                let new = (cur + *d as i64).max(0) as usize;
                bytes.resize(body_start + new, 0xEE);
                let b = if item.big { (new as u32).to_be_bytes() } else { (new as u32).to_le_bytes() };
                bytes[4..8].copy_from_slice(&b);
            }
            Mut::FieldsLen(extra) => {
                // the fields array claims `extra` more bytes: what follows (padding, body) is read as fields;
                // keep the frame length consistent by recomputing the declared body length
                let new_fields = fields_end - 16 + *extra as usize;
                let new_body_start = (16 + new_fields + 7) & !7;
                if new_body_start <= bytes.len() {
                    let new_body = bytes.len() - new_body_start;
                    let wr = |v: u32| if item.big { v.to_be_bytes() } else { v.to_le_bytes() };
                    bytes[12..16].copy_from_slice(&wr(new_fields as u32));
                    bytes[4..8].copy_from_slice(&wr(new_body as u32));
                }
            }
            Mut::Endian(b) => bytes[0] = *b,
            Mut::HeaderByte(pos, val) => bytes[1 + (*pos as usize % 3)] = *val,
            _ => {}
        }
    }
    bytes
}

fn gen_mut(rng: &mut Rng) -> Mut {
    match rng.below(17) {
        0..=2 => Mut::FieldStr(rng.below(6) as u8, if rng.chance(1, 10) { 254 + rng.below(2) as u8 } else { rng.below(BAD_STRINGS.len() as u64) as u8 }),
        3..=4 => Mut::FieldType(rng.below(9) as u8, rng.below(6) as u8),
        5 => Mut::DropField(rng.below(9) as u8),
        6 => Mut::DupField(rng.below(9) as u8),
        7..=8 => Mut::Sig(rng.below(12) as u8),
        9 => Mut::FlipHeaderBits(rng.range(1, 4) as u8, rng.next_u64() as u32),
        10 => Mut::FlipBodyBits(rng.range(1, 6) as u8, rng.next_u64() as u32),
        11 => Mut::BodyLen(*rng.pick(&[-8i16, -1, 1, 3, 8, 64])),
        12 => Mut::FieldsLen(*rng.pick(&[1u8, 4, 8, 16, 40])),
        13 => match rng.below(3) {
            0 => Mut::Endian(*rng.pick(&[b'B', b'l', 0, b'L', 0xff])),
            1 => Mut::HeaderByte(rng.below(3) as u8, rng.below(256) as u8),
            _ => Mut::ZeroReplySerial,
        },
        14 => Mut::Fds(*rng.pick(&[1u32, 2, 1000, u32::MAX])),
        15 => Mut::DeepField(*rng.pick(&[1u8, 8, 10, 77, 200]), rng.range(28, 34) as u8 + if rng.chance(1, 4) { 31 } else { 0 }, rng.below(4) as u8),
        _ => Mut::GarbageBody(rng.range(0, 80) as u16, rng.next_u64() as u32),
    }
}

impl Scenario for C12Scn {
    fn id(&self) -> &'static str {
        "C12"
    }
    fn rule(&self) -> &'static str {
        "a hostile raw peer sends 1..6 messages of all four types (both endiannesses, 6 body shapes) to a live connection and corrupts them with 1..3 operators each: hostile strings in header fields (invalid paths / names, empty, 300 bytes), header fields of the wrong type, missing / duplicated fields, invalid / deep / mismatching body signatures, header field values nested 28..65 containers deep (structs, arrays, variants: around the decoder's depth limits), bit flips in the fields region and in the body, body-length and fields-array-length edits that keep the frame length consistent, endianness / version / flag / type bytes, fd counts without fds, reply serial 0, garbage bodies; the connection has an unfiltered consumer that reads every header accessor, deserializes the body, formats Display and Debug, three rule streams whose matching deserializes arguments, an object server (calls with garbage arguments reach generated dispatch code) and a pending method call (garbage error replies are converted to errors); oracle: no task panics - errors and a dead connection are fine; non-trivial = at least one corrupted message was completely read by the framer (reached the parser); this does not cover 'every byte string', only corruption of a live stream"
    }
    fn runs(&self, tier: Tier) -> u64 {
        match tier {
            Tier::Quick => 30_000,
            Tier::Thorough => 3_000_000,
        }
    }
    fn real(&self) -> Vec<&'static str> {
        vec!["ReadHalf::receive_message", "Message::from_raw_parts, Fields deserialization, QuickFields / FieldPos", "Message::header and all accessors, Display / Debug", "Body::deserialize", "MatchRule::matches (arg, arg-path, arg0namespace, path_namespace)", "object server dispatch + generated argument decoding", "Error::from(Message) for error replies"]
    }
    fn stubbed(&self) -> Vec<&'static str> {
        vec!["OS socket", "executor", "clock", "peer (hostile raw peer with its own marshaller)"]
    }
    fn assumptions(&self) -> Vec<&'static str> {
        vec!["scoped: the property is a pure function of the byte string; simulation only decides the part where a corrupted message is parsed on the reader task and then touched by other tasks"]
    }

    fn generate(&self, rng: &mut Rng, _idx: u64, _tier: Tier) -> (SchedCfg, Value) {
        let n = rng.range(1, 6);
        let items = (0..n)
            .map(|_| {
                let k = if rng.chance(3, 4) { rng.range(1, 3) } else { 0 };
                Item { kind: rng.below(4) as u8, big: rng.chance(1, 3), body: rng.below(6) as u8, muts: (0..k).map(|_| gen_mut(rng)).collect() }
            })
            .collect();
        let sched = SchedCfg::generate(rng, &["socket reader", "consumer"]);
        (sched, j(&P { items, link: gen_read_cfg(rng) }))
    }

    fn shrink(&self, body: &Value) -> Vec<Value> {
        let p: P = unj(body);
        let mut out = vec![];
        for v in drop_candidates(&p.items) {
            if !v.is_empty() {
                let mut q = p.clone();
                q.items = v;
                out.push(j(&q));
            }
        }
        for (i, it) in p.items.iter().enumerate() {
            for m in drop_candidates(&it.muts) {
                let mut q = p.clone();
                q.items[i].muts = m;
                out.push(j(&q));
            }
            if it.big {
                let mut q = p.clone();
                q.items[i].big = false;
                out.push(j(&q));
            }
        }
        if p.link != LinkCfg::default() {
            let mut q = p.clone();
            q.link = LinkCfg::default();
            out.push(j(&q));
        }
        out
    }

    fn run(&self, w: &World, body: &Value) -> Verdict {
        let p: P = unj(body);
        let (sock, raw) = sim_pair(w, p.link.clone(), LinkCfg::default(), SockCfg::default());
        let inbound = raw.tx.clone();
        let log = new_log();
        let up = shared(false);
        let (l2, u2, ww) = (log.clone(), up.clone(), w.clone());
        let app = w.spawn("app", async move {
            let conn = match zbus::connection::Builder::authenticated_socket(sock, GUID).unwrap().p2p().internal_executor(false).serve_at("/a", A::new(&l2, &ww, 0)).unwrap().build().await {
                Ok(c) => c,
                Err(_) => return vec![],
            };
            let mut tasks = vec![];
            // unfiltered consumer touching everything
            let mut all = MessageStream::from(&conn);
            tasks.push(ww.spawn("consumer-all", async move {
                while let Some(item) = all.next().await {
                    if let Ok(m) = item {
                        let h = m.header();
                        let _ = (h.path().map(|x| x.len()), h.interface().map(|x| x.len()), h.member().map(|x| x.len()), h.error_name().map(|x| x.len()));
                        let _ = (h.reply_serial(), h.destination().map(|x| x.to_string()), h.sender().map(|x| x.to_string()), h.signature().to_string(), h.unix_fds());
                        let _ = (m.message_type(), m.primary_header().flags(), m.primary_header().body_len(), m.primary_header().serial_num(), m.recv_position());
                        let b = m.body();
                        let _ = b.signature().to_string();
                        let _ = b.deserialize::<zbus::zvariant::Structure<'_>>().map(|s| format!("{s:?}"));
                        let _ = b.deserialize::<(String, u32)>();
                        let _ = format!("{m}");
                        let _ = format!("{m:?}");
                        let _ = format!("{h:?}");
                    }
                }
            }));
            // rule streams whose matching looks into the body
            let rules = [
                MatchRule::builder().msg_type(zbus::message::Type::Signal).arg(0, "hello").unwrap().build(),
                MatchRule::builder().arg_path(0, "/some/path").unwrap().path_namespace("/c12").unwrap().build(),
                MatchRule::builder().arg0ns("org.c12").unwrap().build(),
            ];
            for (i, rule) in rules.into_iter().enumerate() {
                if let Ok(mut s) = MessageStream::for_match_rule(rule, &conn, None).await {
                    tasks.push(ww.spawn(&format!("consumer-rule-{i}"), async move {
                        while let Some(item) = s.next().await {
                            if let Ok(m) = item {
                                let _ = format!("{m}");
                            }
                        }
                    }));
                }
            }
            *u2.lock().unwrap() = true;
            // the pending call
            let c2 = conn.clone();
            tasks.push(ww.spawn("caller", async move {
                match c2.call_method(None::<&str>, "/peer", Some("org.c12.Peer"), "Pending", &()).await {
                    Ok(m) => {
                        let _ = m.body().deserialize::<(String, u32)>();
                    }
                    Err(e) => {
                        let _ = format!("{e} {e:?}");
                    }
                }
            }));
            drop(conn);
            tasks
        });

        let (p2, raw2) = (p.clone(), raw.clone());
        let ranges = shared(Vec::<(u64, u64, bool)>::new());
        let rg = ranges.clone();
        let peer = w.spawn("peer", async move {
            let mut r = PeerReader::new(raw2.clone());
            // wait for the pending call to learn its serial
            let mut pending = 0;
            while pending == 0 {
                match r.msg().await {
                    Ok(Some(m)) if m.mtype == T_CALL && m.member() == Some("Pending") => pending = m.serial,
                    Ok(Some(_)) => {}
                    _ => return,
                }
            }
            let mut off = 0u64;
            let mut out = vec![];
            for (i, it) in p2.items.iter().enumerate() {
                let b = build(it, i, pending);
                // only bytes that still frame consistently keep later messages aligned; record both
                let framed = matches!(frame_len(&b), Some(Ok(n)) if n == b.len());
                rg.lock().unwrap().push((off, off + b.len() as u64, framed && !it.muts.is_empty()));
                off += b.len() as u64;
                out.extend(b);
            }
            raw2.write(&out);
            while let Ok(Some(_)) = r.msg().await {}
        });

        w.run();
        let ok = *up.lock().unwrap();
        let read_total = inbound.st.lock().unwrap().total_read;
        let rg = ranges.lock().unwrap().clone();
        drop(app);
        drop(peer);
        raw.tx.drop_wakers();
        raw.rx.drop_wakers();
        if !ok {
            return Verdict::harness("connection did not come up");
        }
        // (panics are turned into violations by the framework)
        let reached = rg.iter().any(|(_, e, corrupted)| *corrupted && read_total >= *e);
        if reached {
            w.count("probe.corrupted_message_reached_parser");
        }
        Verdict::ok(reached)
    }
}
