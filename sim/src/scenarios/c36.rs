//! C36 — well-known name bookkeeping follows the bus.
use std::collections::BTreeMap;

use enumflags2::BitFlags;
use serde::{Deserialize, Serialize};
use serde_json::Value;
use zbus::{
    fdo::{RequestNameFlags, RequestNameReply},
    Connection,
};

use super::common::*;
use crate::{
    fakebus::{self, driver_signal, forged_signal, run_bus, Bus, BusCfg, BusState, Owner},
    framework::{Scenario, Tier, Verdict},
    kernel::{SchedCfg, World},
    net::{sim_pair, LinkCfg, SockCfg},
    rng::Rng,
    wire::Val,
};

pub struct C36Scn;
pub static C36: C36Scn = C36Scn;

const NAMES: &[&str] = &["org.c36.One", "org.c36.Two"];

#[derive(Clone, Copy, Debug, Serialize, Deserialize, PartialEq)]
enum Op {
    Request(u8, u8),
    Release(u8),
    /// another connection owns the name from now on (only if nobody does); allows replacement?
    OtherOwns(u8, bool),
    OtherReleases(u8),
    OtherTakes(u8),
    /// a peer (not the driver) sends NameAcquired / NameLost to us
    ForgeAcquired(u8),
    ForgeLost(u8),
    /// the program calls org.freedesktop.DBus.RequestName itself (as through `fdo::DBusProxy`), bypassing the
    /// connection's bookkeeping; only performed while the connection does not hold the name, so that the next
    /// `request_name` is answered `AlreadyOwner` *by the bus*
    DirectRequest(u8, u8),
    /// like `Request`, but if the bus queues us the owner releases the name at that very instant: NameAcquired
    /// arrives right behind the InQueue reply
    RequestHandover(u8, u8),
}

#[derive(Clone, Debug, Serialize, Deserialize, PartialEq)]
struct P {
    ops: Vec<Op>,
    link: LinkCfg,
    bus_delays: bool,
    /// fault kind `cancel_task`: (operation index, await points survived) - that request / release is dropped midway
    #[serde(default)]
    cancel: Option<(u8, u32)>,
}

#[derive(Clone, Copy, Debug, PartialEq)]
pub enum Status {
    None,
    Owner,
    Queued,
}

#[derive(Debug)]
enum Res {
    Request(Result<RequestNameReply, String>),
    Release(Result<bool, String>),
}

impl Scenario for C36Scn {
    fn id(&self) -> &'static str {
        "C36"
    }
    fn rule(&self) -> &'static str {
        "a bus connection (real client handshake + Hello against the fake bus) runs a history of 2..12 operations separated by quiescence (half of the histories drawn blindly, half guided by a simulation of the bus so that operations mostly have an effect): request_name_with_flags (every flag combination), release_name, a request after which, if it gets queued, the owner releases the name at that very instant (NameAcquired right behind the InQueue reply), a RequestName sent to the bus directly while the connection does not hold the name (so that the bus later answers AlreadyOwner itself; the same happens when a name lost to a replacement is inherited back from the queue), in a quarter of the runs one request / release is cancelled at one of its first await points (fault kind cancel_task; the bookkeeping must then follow what the bus was told and answered), and bus-side events: another connection owns / releases / takes over a name (the fake bus then emits the genuine NameAcquired / NameLost it would emit), forged NameAcquired / NameLost from a peer; bus replies carry seeded delays; oracle = name-status model {none, owner, queued}: AlreadyOwner / InQueue are answered locally (no RequestName on the bus) exactly when the model says so, otherwise one RequestName reaches the bus and its reply is reported; release_name is true iff held or queued; forged signals change nothing; non-trivial = the history contains a genuine bus-side ownership change or a forged signal while a name is held or queued"
    }
    fn runs(&self, tier: Tier) -> u64 {
        match tier {
            Tier::Quick => 5_000,
            Tier::Thorough => 300_000,
        }
    }
    fn real(&self) -> Vec<&'static str> {
        vec!["client handshake + Hello (bus mode)", "Connection::request_name_with_flags / release_name", "registered_names map and the NameAcquired / NameLost monitor tasks", "match rule registration for the monitor streams", "MatchRule::matches (driver sender)"]
    }
    fn stubbed(&self) -> Vec<&'static str> {
        vec!["message bus (conformant fake driver with adversarial timing)", "OS socket", "executor", "clock"]
    }

    fn generate(&self, rng: &mut Rng, _idx: u64, _tier: Tier) -> (SchedCfg, Value) {
        let n = rng.range(2, 12);
        let mut ops = vec![];
        // Half of the histories are drawn blindly; the other half follows a simulation of the bus and of the
        // expected bookkeeping and prefers operations that have an effect in the current state (so that deep
        // states - a name lost to a replacement, inherited back from the queue, requested again - are reached).
        let guided = rng.chance(1, 2);
        let mut sim: Vec<(fakebus::NameState, Status)> = vec![(Default::default(), Status::None), (Default::default(), Status::None)];
        for _ in 0..n {
            let name = if guided && rng.chance(3, 4) { 0 } else { rng.below(2) as u8 };
            let op = if !guided {
                match rng.below(14) {
                    0..=3 => Op::Request(name, rng.below(8) as u8),
                    4..=5 => Op::Release(name),
                    6 => Op::OtherOwns(name, rng.chance(1, 2)),
                    7 => Op::OtherReleases(name),
                    8 => Op::OtherTakes(name),
                    9 => Op::ForgeAcquired(name),
                    10 => Op::ForgeLost(name),
                    11 => Op::DirectRequest(name, rng.below(8) as u8),
                    12 => Op::RequestHandover(name, rng.below(4) as u8),
                    _ => Op::Request(name, 1),
                }
            } else {
                let (bus, local) = &sim[name as usize];
                let flags = |rng: &mut Rng| (rng.below(8) as u8) | if rng.chance(1, 2) { 1 } else { 0 };
                let mine_replaceable = bus.owner == Owner::Me && bus.my_flags & fakebus::FLAG_ALLOW_REPLACEMENT != 0;
                let weights: [(u64, u8); 8] = [
                    (if *local == Status::None { 30 } else { 8 }, 0),
                    (if *local != Status::None { 12 } else { 2 }, 1),
                    (if bus.owner == Owner::Nobody { 15 } else { 1 }, 2),
                    (if matches!(bus.owner, Owner::Other(_)) { 20 } else { 1 }, 3),
                    (if mine_replaceable { 30 } else if bus.owner == Owner::Nobody { 8 } else { 1 }, 4),
                    (if *local != Status::None { 6 } else { 2 }, 5),
                    (if *local != Status::None { 6 } else { 2 }, 6),
                    (if *local == Status::None { 10 } else { 0 }, 7),
                ];
                let total: u64 = weights.iter().map(|w| w.0).sum();
                let mut pick = rng.below(total);
                let mut kind = 0;
                for (wt, k) in weights {
                    if pick < wt {
                        kind = k;
                        break;
                    }
                    pick -= wt;
                }
                match kind {
                    0 if matches!(bus.owner, Owner::Other(_)) && rng.chance(1, 3) => Op::RequestHandover(name, rng.below(4) as u8),
                    0 => Op::Request(name, flags(rng)),
                    1 => Op::Release(name),
                    2 => Op::OtherOwns(name, rng.chance(1, 2)),
                    3 => Op::OtherReleases(name),
                    4 => Op::OtherTakes(name),
                    5 => Op::ForgeAcquired(name),
                    6 => Op::ForgeLost(name),
                    _ => Op::DirectRequest(name, flags(rng)),
                }
            };
            // advance the simulation
            let (bus, local) = &mut sim[name as usize];
            let mut signals = vec![];
            match op {
                Op::Request(_, f) if *local == Status::None => {
                    let (code, _) = fakebus::request_name(bus, f as u32);
                    *local = match code {
                        1 | 4 => Status::Owner,
                        2 => Status::Queued,
                        _ => Status::None,
                    };
                }
                Op::RequestHandover(_, f) if *local == Status::None => {
                    let (code, _) = fakebus::request_name(bus, f as u32);
                    *local = match code {
                        1 | 4 => Status::Owner,
                        2 => {
                            fakebus::other_releases(bus);
                            Status::Owner
                        }
                        _ => Status::None,
                    };
                }
                Op::Release(_) if *local != Status::None => {
                    fakebus::release_name(bus);
                    *local = Status::None;
                }
                Op::OtherOwns(_, allows) if bus.owner == Owner::Nobody => bus.owner = Owner::Other(allows),
                Op::OtherReleases(_) => signals = fakebus::other_releases(bus),
                Op::OtherTakes(_) => signals = fakebus::other_takes(bus),
                Op::DirectRequest(_, f) if *local == Status::None => {
                    fakebus::request_name(bus, f as u32);
                }
                _ => {}
            }
            for sg in signals {
                match (sg, *local) {
                    ("NameAcquired", Status::Queued) => *local = Status::Owner,
                    ("NameLost", Status::Owner) => *local = Status::None,
                    _ => {}
                }
            }
            ops.push(op);
        }
        let sched = SchedCfg::generate(rng, &["monitor_name", "socket reader"]);
        let own: Vec<u8> = ops.iter().enumerate().filter(|(_, o)| matches!(o, Op::Request(..) | Op::Release(..))).map(|(i, _)| i as u8).collect();
        let cancel = if !own.is_empty() && rng.chance(1, 4) { Some((*rng.pick(&own), rng.below(5) as u32)) } else { None };
        (sched, j(&P { ops, link: gen_read_cfg(rng), bus_delays: rng.chance(2, 3), cancel }))
    }

    fn shrink(&self, body: &Value) -> Vec<Value> {
        let p: P = unj(body);
        let mut out = vec![];
        match p.cancel {
            None => {
                for o in drop_candidates(&p.ops) {
                    if !o.is_empty() {
                        let mut q = p.clone();
                        q.ops = o;
                        out.push(j(&q));
                    }
                }
            }
            Some((ci, n)) => {
                // drop single operations, keeping the cancelled one and its index right
                for i in 0..p.ops.len() {
                    if i != ci as usize {
                        let mut q = p.clone();
                        q.ops.remove(i);
                        q.cancel = Some((if i < ci as usize { ci - 1 } else { ci }, n));
                        out.push(j(&q));
                    }
                }
                let mut q = p.clone();
                q.cancel = None;
                out.push(j(&q));
                if n > 0 {
                    let mut q = p.clone();
                    q.cancel = Some((ci, n - 1));
                    out.push(j(&q));
                }
            }
        }
        for f in [|q: &mut P| q.link = LinkCfg::default(), |q: &mut P| q.bus_delays = false] {
            let mut q = p.clone();
            f(&mut q);
            if q != p {
                out.push(j(&q));
            }
        }
        out
    }

    fn run(&self, w: &World, body: &Value) -> Verdict {
        let p: P = unj(body);
        let (sock, raw) = sim_pair(w, p.link.clone(), LinkCfg::default(), SockCfg::default());
        let bus: Bus = shared(BusState::default());
        let bus_task = w.spawn("bus", run_bus(w.clone(), raw.clone(), bus.clone(), BusCfg { delays: p.bus_delays, after_hello: vec![] }));
        let conn_slot = shared(None::<Result<Connection, String>>);
        let cs = conn_slot.clone();
        let setup = w.spawn("setup", async move {
            *cs.lock().unwrap() = Some(build_bus_client(sock).await.map_err(|e| e.to_string()));
        });
        w.run();
        drop(setup);
        let conn = match conn_slot.lock().unwrap().take() {
            Some(Ok(c)) => c,
            other => return Verdict::harness(format!("bus connection did not build: {:?}", other.map(|r| r.err()))),
        };
        if conn.unique_name().map(|n| n.as_str()) != Some(fakebus::ME) {
            return Verdict::fail("hello", "unique-name", format!("unique name is {:?}, the bus assigned {}", conn.unique_name(), fakebus::ME));
        }

        let mut model: BTreeMap<u8, Status> = BTreeMap::new();
        let mut nontrivial = false;
        let mut direct_granted = false;
        let mut after_cancel = false;
        let mut verdict = None;
        for (i, op) in p.ops.iter().enumerate() {
            let calls_before = bus.lock().unwrap().calls.len();
            let held = |m: &BTreeMap<u8, Status>, n: u8| m.get(&n).copied().unwrap_or(Status::None);
            match *op {
                Op::Request(..) | Op::Release(..) | Op::RequestHandover(..) => {
                    if matches!(op, Op::RequestHandover(..)) {
                        bus.lock().unwrap().handover_after_queue = true;
                    }
                    let handovers_before = bus.lock().unwrap().handovers;
                    let (n, flags) = match *op {
                        Op::Request(n, f) | Op::RequestHandover(n, f) => (n, f),
                        Op::Release(n) => (n, 0),
                        _ => (0, 0),
                    };
                    let res = shared(None::<Res>);
                    let (r2, c2) = (res.clone(), conn.clone());
                    let is_req = matches!(op, Op::Request(..) | Op::RequestHandover(..));
                    let cancel_at = match p.cancel {
                        Some((ci, n)) if ci as usize == i => Some(n),
                        _ => None,
                    };
                    let t = w.spawn("client-op", cancel_after(w, cancel_at, async move {
                        let r = if is_req {
                            let f = BitFlags::<RequestNameFlags>::from_bits_truncate(flags as u32);
                            Res::Request(c2.request_name_with_flags(NAMES[n as usize], f).await.map_err(|e| e.to_string()))
                        } else {
                            Res::Release(c2.release_name(NAMES[n as usize]).await.map_err(|e| e.to_string()))
                        };
                        *r2.lock().unwrap() = Some(r);
                    }));
                    w.run();
                    drop(t);
                    let got = res.lock().unwrap().take();
                    if got.is_some() {
                        // (a cancelled operation resets the flag itself, after looking at what the bus did)
                        bus.lock().unwrap().handover_after_queue = false;
                    }
                    let new_calls: Vec<(String, String, u32, u32)> = bus.lock().unwrap().calls[calls_before..].iter().filter(|c| c.0 == "RequestName" || c.0 == "ReleaseName").cloned().collect();
                    let st = held(&model, n);
                    let name = NAMES[n as usize];
                    let Some(got) = got else {
                        if cancel_at.is_some() {
                            // Cancelled midway: the bookkeeping has to follow what the bus was told and answered.
                            w.count("probe.request_or_release_cancelled_midway");
                            after_cancel = true;
                            let handed_over = bus.lock().unwrap().handovers > handovers_before;
                            bus.lock().unwrap().handover_after_queue = false;
                            match new_calls.first() {
                                Some(c) if c.0 == "RequestName" => {
                                    model.insert(n, match c.3 {
                                        1 | 4 => Status::Owner,
                                        2 if handed_over => Status::Owner,
                                        2 => Status::Queued,
                                        _ => Status::None,
                                    });
                                }
                                Some(c) if c.0 == "ReleaseName" && c.3 == 1 => {
                                    model.insert(n, Status::None);
                                }
                                _ => {}
                            }
                            continue;
                        }
                        verdict = Some(Verdict::fail("hang", "operation-never-returned", format!("op {i} {op:?} never returned")));
                        break;
                    };
                    match (&got, st) {
                        (Res::Request(r), Status::Owner) | (Res::Request(r), Status::Queued) => {
                            let want = if st == Status::Owner { RequestNameReply::AlreadyOwner } else { RequestNameReply::InQueue };
                            if !new_calls.is_empty() || r.as_ref().ok() != Some(&want) {
                                verdict = Some(Verdict::fail(
                                    "status",
                                    format!("request-while-{st:?}"),
                                    format!("op {i} {op:?}: the model says {name} is {st:?}, so {want:?} is expected without bus traffic; got {r:?} with bus calls {new_calls:?}"),
                                ));
                            }
                        }
                        (Res::Request(r), Status::None) => {
                            if new_calls.len() != 1 || new_calls[0].0 != "RequestName" || new_calls[0].1 != name {
                                verdict = Some(Verdict::fail("status", "request-while-None-no-bus-call", format!("op {i} {op:?}: the model says {name} is not held, so one RequestName must reach the bus; bus saw {new_calls:?}, result {r:?}")));
                            } else {
                                let code = new_calls[0].3;
                                if code == 4 {
                                    w.count("probe.bus_answered_already_owner");
                                    let _ = direct_granted;
                                }
                                if new_calls[0].2 != flags as u32 {
                                    verdict = Some(Verdict::fail("flags", "flags-not-forwarded", format!("op {i}: flags {flags} requested, bus saw {}", new_calls[0].2)));
                                }
                                let (want, ns): (Result<RequestNameReply, ()>, Status) = match code {
                                    1 => (Ok(RequestNameReply::PrimaryOwner), Status::Owner),
                                    2 => (Ok(RequestNameReply::InQueue), Status::Queued),
                                    4 => (Ok(RequestNameReply::AlreadyOwner), Status::Owner),
                                    _ => (Err(()), Status::None),
                                };
                                let ok = match (&want, r) {
                                    (Ok(a), Ok(b)) => a == b,
                                    (Err(()), Err(_)) => true,
                                    _ => false,
                                };
                                if !ok {
                                    verdict = Some(Verdict::fail("reply", "bus-reply-misreported", format!("op {i} {op:?}: bus replied {code}, request_name returned {r:?}")));
                                }
                                // queued and handed the name at that very instant: the genuine NameAcquired that
                                // followed the reply makes us the owner
                                let handed_over = bus.lock().unwrap().handovers > handovers_before;
                                if handed_over {
                                    w.count("probe.name_acquired_right_behind_in_queue_reply");
                                    nontrivial = true;
                                }
                                model.insert(n, if handed_over && ns == Status::Queued { Status::Owner } else { ns });
                            }
                        }
                        (Res::Release(r), Status::None) => {
                            if !new_calls.is_empty() || r.as_ref().ok() != Some(&false) {
                                verdict = Some(Verdict::fail("status", "release-while-None", format!("op {i} {op:?}: {name} is not held per the model; expected Ok(false) and no bus traffic, got {r:?} / {new_calls:?}")));
                            }
                        }
                        (Res::Release(r), _) => {
                            if new_calls.len() != 1 || new_calls[0].0 != "ReleaseName" {
                                verdict = Some(Verdict::fail("status", format!("release-while-{st:?}-no-bus-call"), format!("op {i} {op:?}: {name} is {st:?} per the model; bus saw {new_calls:?}, result {r:?}")));
                            } else {
                                let want = new_calls[0].3 == 1;
                                if r.as_ref().ok() != Some(&want) {
                                    verdict = Some(Verdict::fail("reply", "release-reply-misreported", format!("op {i} {op:?}: bus replied {}, release_name returned {r:?}", new_calls[0].3)));
                                }
                                model.insert(n, Status::None);
                            }
                        }
                    }
                }
                Op::DirectRequest(n, flags) => {
                    if held(&model, n) == Status::None {
                        let c2 = conn.clone();
                        let t = w.spawn("client-direct-request", async move {
                            let _ = c2.call_method(Some(fakebus::DRIVER), fakebus::DRIVER_PATH, Some(fakebus::DRIVER), "RequestName", &(NAMES[n as usize], flags as u32)).await;
                        });
                        w.run();
                        drop(t);
                        let granted = bus.lock().unwrap().calls[calls_before..].iter().any(|c| c.0 == "RequestName" && (c.3 == 1 || c.3 == 4));
                        if granted {
                            direct_granted = true;
                        }
                    }
                }
                Op::OtherOwns(n, allows) => {
                    let mut b = bus.lock().unwrap();
                    let st = b.names.entry(NAMES[n as usize].to_string()).or_default();
                    if st.owner == Owner::Nobody {
                        st.owner = Owner::Other(allows);
                    }
                }
                Op::OtherReleases(n) | Op::OtherTakes(n) => {
                    let sigs = {
                        let mut b = bus.lock().unwrap();
                        let st = b.names.entry(NAMES[n as usize].to_string()).or_default();
                        if matches!(op, Op::OtherReleases(_)) {
                            fakebus::other_releases(st)
                        } else {
                            fakebus::other_takes(st)
                        }
                    };
                    for s in sigs {
                        nontrivial = true;
                        raw.write(&driver_signal(&bus, s, &[Val::str(NAMES[n as usize])], true).encode());
                        match s {
                            "NameAcquired" => {
                                if held(&model, n) == Status::Queued {
                                    model.insert(n, Status::Owner);
                                }
                            }
                            _ => {
                                if held(&model, n) == Status::Owner {
                                    model.insert(n, Status::None);
                                }
                            }
                        }
                    }
                    w.run();
                }
                Op::ForgeAcquired(n) | Op::ForgeLost(n) => {
                    let member = if matches!(op, Op::ForgeAcquired(_)) { "NameAcquired" } else { "NameLost" };
                    if held(&model, n) != Status::None {
                        nontrivial = true;
                    }
                    raw.write(&forged_signal(&bus, member, &[Val::str(NAMES[n as usize])], ":1.66").encode());
                    w.run();
                }
            }
            if verdict.is_some() {
                break;
            }
        }
        drop(conn);
        drop(bus_task);
        raw.tx.drop_wakers();
        raw.rx.drop_wakers();
        if nontrivial {
            w.count("probe.bus_side_change_or_forgery_while_name_held");
        }
        // after a cancelled operation every rule carries its own fingerprint
        if let (true, Some(v)) = (after_cancel, verdict.as_mut()) {
            if let Some(viol) = v.violation.as_mut() {
                viol.disc = format!("after-cancelled-operation-{}", viol.disc);
            }
        }
        verdict.unwrap_or_else(|| Verdict::ok(nontrivial))
    }
}
