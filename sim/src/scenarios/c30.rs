//! C30 — object server use from handlers and right after setup does not hang.
use serde::{Deserialize, Serialize};
use serde_json::Value;
use zbus::{
    zvariant::{OwnedValue, Value as ZValue},
    Connection,
};

use super::common::*;
use crate::{
    corpus::H,
    framework::{Scenario, Tier, Verdict},
    kernel::{SchedCfg, World},
    net::{sim_socket_pair, LinkCfg, SockCfg},
    rng::Rng,
};

pub struct C30Scn;
pub static C30: C30Scn = C30Scn;

#[derive(Clone, Copy, Debug, Serialize, Deserialize, PartialEq)]
enum Kind {
    AddChild(u8),
    RemoveChild(u8),
    Emit,
    /// `Properties.Get` of a property whose getter registers an object
    GetProbe,
    /// `Properties.Set` of a property whose setter registers / removes an object
    SetProbe(u8),
    GetAll,
    GetPlain,
    /// a `&mut self` (true) or `&self` (false) handler that removes its own interface
    CloseSelf(bool),
}

#[derive(Clone, Debug, Serialize, Deserialize, PartialEq)]
struct P {
    /// the object server is created on demand (and the interface registered) right before the
    /// first call, instead of by the connection builder
    lazy: bool,
    /// per client task: calls with yields before each
    clients: Vec<Vec<(Kind, u8)>>,
    link: LinkCfg,
}

impl Scenario for C30Scn {
    fn id(&self) -> &'static str {
        "C30"
    }
    fn rule(&self) -> &'static str {
        "a server interface whose method handlers, property getter and property setter register / remove objects (including, from `&self` and `&mut self` handlers, their own interface) and emit signals through the object server; 1..2 real client tasks issue 1..5 calls each (methods, Properties.Get/Set/GetAll); in the lazy variant the connection has no object server until the server task calls object_server().at() and only after that has returned (simulator event order) do the clients start; no timeouts are configured, so a deadlock or a lost wake-up shows as quiescence with an unanswered call; non-trivial = the run contains a handler that re-enters the object server, or the lazy variant"
    }
    fn runs(&self, tier: Tier) -> u64 {
        match tier {
            Tier::Quick => 6_000,
            Tier::Thorough => 400_000,
        }
    }
    fn real(&self) -> Vec<&'static str> {
        vec!["fdo::Properties Get/Set/GetAll", "ObjectServer::at/remove from inside handlers", "on-demand object server creation and dispatch task start-up", "signal emission from handlers", "two real connections"]
    }
    fn stubbed(&self) -> Vec<&'static str> {
        vec!["OS sockets", "executor (seeded scheduler)", "clock"]
    }

    fn generate(&self, rng: &mut Rng, _idx: u64, _tier: Tier) -> (SchedCfg, Value) {
        let nc = rng.range(1, 2);
        let clients = (0..nc)
            .map(|_| {
                (0..rng.range(1, 5))
                    .map(|_| {
                        let k = match rng.below(10) {
                            0 | 1 => Kind::AddChild(rng.below(3) as u8),
                            2 => Kind::RemoveChild(rng.below(3) as u8),
                            3 => Kind::Emit,
                            4 | 5 => Kind::GetProbe,
                            6 => Kind::SetProbe(rng.below(4) as u8),
                            7 => Kind::GetAll,
                            8 if rng.chance(1, 3) => Kind::CloseSelf(rng.chance(2, 3)),
                            _ => Kind::GetPlain,
                        };
                        (k, rng.below(3) as u8)
                    })
                    .collect()
            })
            .collect();
        let sched = SchedCfg::generate(rng, &["obj_server_task", "client", "socket reader", "method dispatcher"]);
        (sched, j(&P { lazy: rng.chance(1, 2), clients, link: gen_read_cfg(rng) }))
    }

    fn shrink(&self, body: &Value) -> Vec<Value> {
        let p: P = unj(body);
        let mut out = vec![];
        for c in drop_candidates(&p.clients) {
            if !c.is_empty() {
                let mut q = p.clone();
                q.clients = c;
                out.push(j(&q));
            }
        }
        for (i, c) in p.clients.iter().enumerate() {
            for cs in drop_candidates(c) {
                if !cs.is_empty() {
                    let mut q = p.clone();
                    q.clients[i] = cs;
                    out.push(j(&q));
                }
            }
        }
        for f in [|q: &mut P| q.link = LinkCfg::default(), |q: &mut P| q.lazy = false, |q: &mut P| q.clients.iter_mut().flatten().for_each(|c| c.1 = 0)] {
            let mut q = p.clone();
            f(&mut q);
            if q != p {
                out.push(j(&q));
            }
        }
        out
    }

    fn run(&self, w: &World, body: &Value) -> Verdict {
        let p: P = unj(body);
        let (sa, sb) = sim_socket_pair(w, p.link.clone(), p.link.clone(), SockCfg::default(), SockCfg::default());
        let conns = shared(None::<(Connection, Connection)>);
        let (c2, ww, lazy) = (conns.clone(), w.clone(), p.lazy);
        let setup = w.spawn("setup", async move {
            let sb_conn = zbus::connection::Builder::authenticated_socket(sb, crate::peers::GUID).unwrap().p2p().internal_executor(false).build().await;
            let mut b = zbus::connection::Builder::authenticated_socket(sa, crate::peers::GUID).unwrap().p2p().internal_executor(false);
            if !lazy {
                b = b.serve_at("/h", H { w: ww.clone(), n: 5 }).unwrap();
            }
            if let (Ok(a), Ok(c)) = (b.build().await, sb_conn) {
                *c2.lock().unwrap() = Some((a, c));
            }
        });
        w.run();
        drop(setup);
        let Some((server, client)) = conns.lock().unwrap().take() else { return Verdict::harness("pair did not build") };

        if p.lazy {
            // on-demand creation + registration; the clients only start once `at` has returned
            let registered = shared(None::<Result<bool, String>>);
            let (r2, s2, ww) = (registered.clone(), server.clone(), w.clone());
            let t = w.spawn("lazy-setup", async move {
                let r = s2.object_server().at("/h", H { w: ww.clone(), n: 5 }).await;
                *r2.lock().unwrap() = Some(r.map_err(|e| e.to_string()));
            });
            // run *only* until the registration has returned (one scheduler step at a time): the
            // clients must be able to start at the earliest moment a real program could
            t.detach();
            let mut guard = 0;
            while registered.lock().unwrap().is_none() && guard < 10_000 {
                guard += 1;
                w.run_steps(1);
            }
            let reg = registered.lock().unwrap().clone();
            match reg {
                Some(Ok(true)) => {}
                other => return Verdict::fail("setup", "lazy-registration-failed", format!("object_server().at() returned {other:?}")),
            }
        }

        let results = shared(Vec::<(usize, usize, Kind, Option<Result<String, String>>)>::new());
        let mut tasks = vec![];
        for (ci, calls) in p.clients.iter().enumerate() {
            let (conn, calls, results, ww) = (client.clone(), calls.clone(), results.clone(), w.clone());
            tasks.push(w.spawn(&format!("client-{ci}"), async move {
                for (k, (kind, gap)) in calls.into_iter().enumerate() {
                    for _ in 0..gap {
                        ww.yield_now().await;
                    }
                    let idx = {
                        let mut r = results.lock().unwrap();
                        r.push((ci, k, kind, None));
                        r.len() - 1
                    };
                    let props = "org.freedesktop.DBus.Properties";
                    let res: zbus::Result<String> = match kind {
                        Kind::AddChild(n) => conn.call_method(None::<&str>, "/h", Some("org.sim.H"), "AddChild", &(n as u32)).await.map(|m| format!("{:?}", m.body().deserialize::<bool>())),
                        Kind::RemoveChild(n) => conn.call_method(None::<&str>, "/h", Some("org.sim.H"), "RemoveChild", &(n as u32)).await.map(|m| format!("{:?}", m.body().deserialize::<bool>())),
                        Kind::Emit => conn.call_method(None::<&str>, "/h", Some("org.sim.H"), "Emit", &()).await.map(|m| format!("{:?}", m.body().deserialize::<u32>())),
                        Kind::GetProbe => conn.call_method(None::<&str>, "/h", Some(props), "Get", &("org.sim.H", "Probe")).await.map(|m| format!("{:?}", m.body().deserialize::<OwnedValue>().map(|_| ()))),
                        Kind::GetPlain => conn.call_method(None::<&str>, "/h", Some(props), "Get", &("org.sim.H", "Plain")).await.map(|m| format!("{:?}", m.body().deserialize::<OwnedValue>().map(|_| ()))),
                        Kind::SetProbe(v) => conn.call_method(None::<&str>, "/h", Some(props), "Set", &("org.sim.H", "Probe", ZValue::from(v as u32))).await.map(|_| "set".to_string()),
                        Kind::GetAll => conn.call_method(None::<&str>, "/h", Some(props), "GetAll", &("org.sim.H",)).await.map(|_| "all".to_string()),
                        Kind::CloseSelf(m) => conn.call_method(None::<&str>, "/h", Some("org.sim.H"), if m { "Close" } else { "Detach" }, &()).await.map(|m| format!("{:?}", m.body().deserialize::<bool>())),
                    };
                    results.lock().unwrap()[idx].3 = Some(res.map_err(|e| e.to_string()));
                }
            }));
        }
        w.run();
        let res = results.lock().unwrap().clone();
        drop(tasks);
        drop(server);
        drop(client);

        let closes = p.clients.iter().flatten().any(|c| matches!(c.0, Kind::CloseSelf(_)));
        for (ci, k, kind, r) in &res {
            match r {
                None => {
                    let what = match kind {
                        Kind::GetProbe => "get-with-reentrant-getter",
                        Kind::SetProbe(_) => "set-with-reentrant-setter",
                        Kind::GetAll => "getall-with-reentrant-getter",
                        Kind::AddChild(_) | Kind::RemoveChild(_) => "method-reentering-server",
                        Kind::Emit => "method-emitting-signal",
                        Kind::GetPlain => "plain-get",
                        Kind::CloseSelf(true) => "mut-handler-removing-its-own-interface",
                        Kind::CloseSelf(false) => "handler-removing-its-own-interface",
                    };
                    let first = *k == 0 && p.lazy;
                    return Verdict::fail(
                        "hang",
                        if first { format!("first-call-after-lazy-setup-{what}") } else { what.to_string() },
                        format!("client {ci} call {k} {kind:?} was never answered (lazy = {}); all: {res:?}", p.lazy),
                    );
                }
                // once the interface removed itself, calls to it legitimately fail with Unknown*
                Some(Err(e)) if closes && (e.contains("UnknownObject") || e.contains("UnknownInterface") || e.contains("UnknownMethod")) => {}
                Some(Err(e)) => return Verdict::fail("error", "call-failed", format!("client {ci} call {k} {kind:?} failed: {e}")),
                Some(Ok(_)) => {}
            }
        }
        let reentrant = res.iter().any(|r| !matches!(r.2, Kind::GetPlain | Kind::Emit));
        if reentrant {
            w.count("probe.handler_reentered_object_server");
        }
        if p.lazy {
            w.count("probe.calls_right_after_on_demand_setup");
        }
        Verdict::ok(reentrant || p.lazy)
    }
}
