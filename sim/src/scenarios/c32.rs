//! C32 — a proxy's signal stream yields signals only from the name's current owner.
use futures_lite::StreamExt;
use serde::{Deserialize, Serialize};
use serde_json::Value;
use zbus::{Connection, Proxy};

use super::common::*;
use crate::{
    fakebus::{driver_signal, forged_signal, peer_signal, run_bus, Bus, BusCfg, BusState},
    framework::{Scenario, Tier, Verdict},
    kernel::{SchedCfg, World},
    net::{sim_pair, LinkCfg, SockCfg},
    rng::Rng,
    wire::Val,
};

pub struct C32Scn;
pub static C32: C32Scn = C32Scn;

const NAME: &str = "org.c32.Svc";
const UNIQUES: &[&str] = &[":1.50", ":1.51", ":1.52"];

#[derive(Clone, Copy, Debug, Serialize, Deserialize, PartialEq)]
enum Ev {
    /// genuine NameOwnerChanged: new owner index (None = no owner)
    Owner(Option<u8>),
    /// a matching signal from that unique name
    Sig(u8),
    /// a signal on another member from that unique name
    OtherMember(u8),
    /// NameOwnerChanged for our name sent by a peer, claiming this new owner
    Forged(Option<u8>),
    /// genuine NameOwnerChanged for an unrelated name
    ForeignName(u8),
}

#[derive(Clone, Debug, Serialize, Deserialize, PartialEq)]
struct P {
    initial_owner: Option<u8>,
    all_signals: bool,
    /// sent after the bus received GetNameOwner, before its reply
    pre: Vec<Ev>,
    /// sent right after the reply, in the same write
    post: Vec<Ev>,
    /// rounds sent once the stream exists; each round is one write
    rounds: Vec<Vec<Ev>>,
    link: LinkCfg,
    bus_delays: bool,
    consumer_pace: u8,
}

struct Wire {
    owner: Option<u8>,
    tag: u32,
    /// (tag, sender, must) of every matching signal in wire order, with the owner at that point
    sigs: Vec<(u32, u8, Option<u8>, bool)>,
}

fn encode(bus: &Bus, wire: &mut Wire, ev: Ev, must: bool, all_signals: bool) -> Vec<u8> {
    let owner_str = |o: Option<u8>| o.map(|i| UNIQUES[i as usize]).unwrap_or("");
    match ev {
        Ev::Owner(n) => {
            let old = owner_str(wire.owner).to_string();
            wire.owner = n;
            driver_signal(bus, "NameOwnerChanged", &[Val::str(NAME), Val::str(&old), Val::str(owner_str(n))], false).encode()
        }
        Ev::Sig(from) => {
            wire.tag += 1;
            wire.sigs.push((wire.tag, from, wire.owner, must));
            peer_signal(bus, UNIQUES[from as usize], "/c32", "org.c32.I", "Sig", &[Val::U32(wire.tag)]).encode()
        }
        Ev::OtherMember(from) => {
            wire.tag += 1;
            if all_signals {
                wire.sigs.push((wire.tag, from, wire.owner, must));
            }
            peer_signal(bus, UNIQUES[from as usize], "/c32", "org.c32.I", "Other", &[Val::U32(wire.tag)]).encode()
        }
        Ev::Forged(n) => forged_signal(bus, "NameOwnerChanged", &[Val::str(NAME), Val::str(owner_str(wire.owner)), Val::str(owner_str(n))], ":1.66").encode(),
        Ev::ForeignName(n) => driver_signal(bus, "NameOwnerChanged", &[Val::str("org.c32.Unrelated"), Val::str(""), Val::str(UNIQUES[n as usize])], false).encode(),
    }
}

impl Scenario for C32Scn {
    fn id(&self) -> &'static str {
        "C32"
    }
    fn rule(&self) -> &'static str {
        "a bus connection holds a proxy to a well-known name and creates a signal stream (one member or all signals); the fake bus answers the owner lookup with the owner at that point of a conformant timeline and sends, in seeded wire order around the reply and afterwards: genuine NameOwnerChanged from the driver (incl. to no owner), matching signals from the owner, the former owner and a stranger, signals on another member, NameOwnerChanged forged by a peer, NameOwnerChanged for an unrelated name; oracle = owner model driven only by genuine events in wire order: every matching signal sent after the stream existed is yielded iff its sender owned the name at its wire position, signals sent during creation may be yielded only under the same condition, order preserved; non-trivial = the owner changed (genuinely) at least once with signals on both sides of the change, or a forgery was sent"
    }
    fn runs(&self, tier: Tier) -> u64 {
        match tier {
            Tier::Quick => 5_000,
            Tier::Thorough => 300_000,
        }
    }
    fn real(&self) -> Vec<&'static str> {
        vec!["Proxy::receive_signal / receive_all_signals", "SignalStream::new (owner lookup joined with NameOwnerChanged stream)", "SignalStream::filter", "MatchRule::matches for driver / well-known senders", "ordered-stream join"]
    }
    fn stubbed(&self) -> Vec<&'static str> {
        vec!["message bus (fake driver, scripted third-party traffic)", "OS socket", "executor", "clock"]
    }

    fn generate(&self, rng: &mut Rng, _idx: u64, _tier: Tier) -> (SchedCfg, Value) {
        let gen_ev = |rng: &mut Rng| match rng.below(12) {
            0..=1 => Ev::Owner(if rng.chance(1, 5) { None } else { Some(rng.below(2) as u8) }),
            2..=6 => Ev::Sig(rng.below(3) as u8),
            7 => Ev::OtherMember(rng.below(3) as u8),
            8..=9 => Ev::Forged(if rng.chance(1, 4) { None } else { Some(rng.below(3) as u8) }),
            _ => Ev::ForeignName(rng.below(3) as u8),
        };
        let pre = (0..rng.below(3)).map(|_| gen_ev(rng)).collect();
        let post = (0..rng.below(3)).map(|_| gen_ev(rng)).collect();
        let rounds = (0..rng.range(1, 3)).map(|_| (0..rng.range(1, 6)).map(|_| gen_ev(rng)).collect()).collect();
        let sched = SchedCfg::generate(rng, &["consumer", "socket reader", "create"]);
        (
            sched,
            j(&P {
                initial_owner: if rng.chance(1, 5) { None } else { Some(rng.below(2) as u8) },
                all_signals: rng.chance(1, 3),
                pre,
                post,
                rounds,
                link: gen_read_cfg(rng),
                bus_delays: rng.chance(1, 2),
                consumer_pace: rng.below(3) as u8,
            }),
        )
    }

    fn shrink(&self, body: &Value) -> Vec<Value> {
        let p: P = unj(body);
        let mut out = vec![];
        for v in drop_candidates(&p.pre) {
            let mut q = p.clone();
            q.pre = v;
            out.push(j(&q));
        }
        for v in drop_candidates(&p.post) {
            let mut q = p.clone();
            q.post = v;
            out.push(j(&q));
        }
        for (i, r) in p.rounds.iter().enumerate() {
            for v in drop_candidates(r) {
                let mut q = p.clone();
                q.rounds[i] = v;
                out.push(j(&q));
            }
        }
        for f in [|q: &mut P| q.link = LinkCfg::default(), |q: &mut P| q.bus_delays = false, |q: &mut P| q.consumer_pace = 0, |q: &mut P| q.all_signals = false] {
            let mut q = p.clone();
            f(&mut q);
            if q != p {
                out.push(j(&q));
            }
        }
        out
    }

    fn run(&self, w: &World, body: &Value) -> Verdict {
        let p: P = unj(body);
        let (sock, raw) = sim_pair(w, p.link.clone(), LinkCfg::default(), SockCfg::default());
        let bus: Bus = shared(BusState::default());
        let mut wire = Wire { owner: p.initial_owner, tag: 0, sigs: vec![] };
        // creation-phase script: pre events, (reply with the owner at that point), post events
        let mut pre = vec![];
        for ev in &p.pre {
            pre.extend(encode(&bus, &mut wire, *ev, false, p.all_signals));
        }
        let owner_at_reply = wire.owner;
        let mut post = vec![];
        for ev in &p.post {
            post.extend(encode(&bus, &mut wire, *ev, false, p.all_signals));
        }
        {
            let mut b = bus.lock().unwrap();
            if let Some(o) = owner_at_reply {
                b.owners.insert(NAME.into(), UNIQUES[o as usize].into());
            }
            b.lookup_script = Some((pre, post));
        }
        let bus_task = w.spawn("bus", run_bus(w.clone(), raw.clone(), bus.clone(), BusCfg { delays: p.bus_delays, after_hello: vec![] }));
        let conn_slot = shared(None::<Result<(Connection, Proxy<'static>), String>>);
        let cs = conn_slot.clone();
        let setup = w.spawn("setup", async move {
            let r: zbus::Result<(Connection, Proxy<'static>)> = async {
                let conn = build_bus_client(sock).await?;
                let px: Proxy<'static> = zbus::proxy::Builder::new(&conn).destination(NAME)?.path("/c32")?.interface("org.c32.I")?.cache_properties(zbus::proxy::CacheProperties::No).build().await?;
                Ok((conn, px))
            }
            .await;
            *cs.lock().unwrap() = Some(r.map_err(|e| e.to_string()));
        });
        w.run();
        drop(setup);
        let (conn, px) = match conn_slot.lock().unwrap().take() {
            Some(Ok(c)) => c,
            other => return Verdict::harness(format!("setup failed: {:?}", other.map(|r| r.err()))),
        };

        // creation + consumer
        let yielded = shared(Vec::<(u32, String)>::new());
        let created = shared(None::<Result<(), String>>);
        let (y2, c2, px2, ww, all, pace) = (yielded.clone(), created.clone(), px.clone(), w.clone(), p.all_signals, p.consumer_pace);
        let consumer = w.spawn("create+consumer", async move {
            let s = if all { px2.receive_all_signals().await } else { px2.receive_signal("Sig").await };
            let mut s = match s {
                Ok(s) => {
                    *c2.lock().unwrap() = Some(Ok(()));
                    s
                }
                Err(e) => {
                    *c2.lock().unwrap() = Some(Err(e.to_string()));
                    return;
                }
            };
            while let Some(m) = s.next().await {
                let tag = m.body().deserialize::<u32>().unwrap_or(u32::MAX);
                let sender = m.header().sender().map(|s| s.to_string()).unwrap_or_default();
                y2.lock().unwrap().push((tag, sender));
                match pace {
                    0 => {}
                    1 => ww.yield_now().await,
                    _ => ww.sleep_ns(20_000).await,
                }
            }
        });
        w.run();
        match created.lock().unwrap().clone() {
            Some(Ok(())) => {}
            other => {
                drop(consumer);
                return Verdict::fail("create", "stream-creation-failed", format!("receive_signal failed or hung against a conformant bus: {other:?}"));
            }
        }
        // steady phase
        for round in &p.rounds {
            let mut bytes = vec![];
            for ev in round {
                bytes.extend(encode(&bus, &mut wire, *ev, true, p.all_signals));
            }
            raw.write(&bytes);
            w.run();
        }
        let got = yielded.lock().unwrap().clone();
        drop(consumer);
        drop(px);
        drop(conn);
        drop(bus_task);
        raw.tx.drop_wakers();
        raw.rx.drop_wakers();

        // ---- oracle ----
        let allowed: Vec<u32> = wire.sigs.iter().filter(|(_, from, owner, _)| Some(*from) == *owner).map(|s| s.0).collect();
        let must: Vec<u32> = wire.sigs.iter().filter(|(_, from, owner, must)| *must && Some(*from) == *owner).map(|s| s.0).collect();
        let got_tags: Vec<u32> = got.iter().map(|g| g.0).collect();
        for (tag, sender) in &got {
            if !allowed.contains(tag) {
                let info = wire.sigs.iter().find(|s| s.0 == *tag);
                let disc = match info {
                    Some((_, from, owner, _)) => {
                        if owner.is_none() {
                            "yielded-while-name-has-no-owner".to_string()
                        } else if *from == 2 {
                            "yielded-from-stranger".to_string()
                        } else {
                            "yielded-from-non-owner".to_string()
                        }
                    }
                    None => "yielded-unknown-message".to_string(),
                };
                return Verdict::fail("owner", disc, format!("signal {tag} from {sender} was yielded; wire history (tag, sender, owner then, after creation): {:?}", wire.sigs));
            }
        }
        let mut sorted = got_tags.clone();
        sorted.sort_unstable();
        sorted.dedup();
        if sorted.len() != got_tags.len() || got_tags.windows(2).any(|x| x[0] > x[1]) {
            return Verdict::fail("order", "duplicate-or-reordered", format!("yielded {got_tags:?}"));
        }
        if let Some(t) = must.iter().find(|t| !got_tags.contains(t)) {
            return Verdict::fail("lost", "owner-signal-not-yielded", format!("signal {t} was sent by the current owner after the stream existed but never yielded; got {got_tags:?}; wire {:?}", wire.sigs));
        }
        let genuine_changes = p.pre.iter().chain(p.post.iter()).chain(p.rounds.iter().flatten()).filter(|e| matches!(e, Ev::Owner(_))).count();
        let forgeries = p.pre.iter().chain(p.post.iter()).chain(p.rounds.iter().flatten()).filter(|e| matches!(e, Ev::Forged(_))).count();
        let nontrivial = (genuine_changes >= 1 && wire.sigs.len() >= 2) || forgeries >= 1;
        if genuine_changes >= 1 {
            w.count("probe.owner_changed_during_run");
        }
        if forgeries >= 1 {
            w.count("probe.forged_owner_change_sent");
        }
        Verdict::ok(nontrivial)
    }
}
