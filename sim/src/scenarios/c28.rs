//! C28 — the Properties interface behaves as the property definitions say.
use std::collections::BTreeMap;

use serde::{Deserialize, Serialize};
use serde_json::Value;

use super::common::*;
use crate::{
    corpus::{canon_val, gen_val, new_log, A},
    corpus_gen,
    framework::{Scenario, Tier, Verdict},
    kernel::{SchedCfg, World},
    models::{linearizable, HistOp, SeqModel},
    net::{sim_pair, LinkCfg, SockCfg},
    peers::{PeerReader, GUID},
    rng::Rng,
    wire::{RawMsg, Val, T_ERROR, T_RETURN, T_SIGNAL},
};

pub struct C28Scn;
pub static C28: C28Scn = C28Scn;

const PROPS: &[&str] = &["Label", "Level", "Quiet", "Fixed", "Counter", "Secret", "NoSuch"];
const PROPS_IFACE: &str = "org.freedesktop.DBus.Properties";

#[derive(Clone, Debug, Serialize, Deserialize, PartialEq)]
enum Op {
    Get(u8),
    GetAll,
    /// set property to a value of the right type derived from `v`
    Set(u8, u32),
    /// set with a value of the wrong type
    SetWrongType(u8),
    /// unknown interface name
    GetUnknownIface,
}

#[derive(Clone, Debug, Serialize, Deserialize, PartialEq)]
struct P {
    /// per client connection... one raw peer, `pipelined` = all calls written before any reply is read
    ops: Vec<Op>,
    pipelined: bool,
    link_in: LinkCfg,
    link_out: LinkCfg,
    /// `Some(k)`: the target is generated interface `k` (property indices and value seeds refer to
    /// `corpus_gen::PROPS`); `None`: the hand-written interface A
    #[serde(default)]
    target: Option<usize>,
}

/// Properties of generated interface `k`: (name, signature, emits-changed mode, access).
fn gen_props(k: usize) -> Vec<(&'static str, &'static str, &'static str, &'static str)> {
    corpus_gen::PROPS.iter().filter(|t| t.0 == k).map(|t| (t.1, t.2, t.3, t.4)).collect()
}
fn gen_value(sig: &str, seed: u32) -> Val {
    gen_val(&mut Rng::new(seed as u64 ^ 0x9e37_79b9), sig)
}
/// A value whose type differs from `sig`.
fn wrong_typed(sig: &str) -> Val {
    if sig == "(bd)" {
        Val::U32(1)
    } else {
        Val::Struct(vec![Val::Bool(true), Val::F64(1.5)])
    }
}

/// Table-driven model for a generated interface: canonical rendering of each property's value.
#[derive(Clone)]
struct GModel {
    k: usize,
    vals: Vec<String>,
}
#[derive(Clone, Debug, PartialEq)]
enum GRet {
    Value(String),
    All(BTreeMap<String, String>),
    Done,
    Error,
}
impl SeqModel for GModel {
    type Op = Op;
    type Ret = GRet;
    fn apply(&mut self, op: &Op, r: &GRet) -> bool {
        let props = gen_props(self.k);
        let is_err = *r == GRet::Error;
        match op {
            Op::Get(p) => match props.get(*p as usize) {
                Some((_, _, _, access)) if *access != "write" => *r == GRet::Value(self.vals[*p as usize].clone()),
                _ => is_err,
            },
            Op::GetAll => {
                let m: BTreeMap<String, String> = props.iter().enumerate().filter(|(_, t)| t.3 != "write").map(|(i, t)| (t.0.to_string(), self.vals[i].clone())).collect();
                *r == GRet::All(m)
            }
            Op::Set(p, seed) => match props.get(*p as usize) {
                Some((_, sig, _, access)) if *access != "read" => {
                    if *r == GRet::Done {
                        self.vals[*p as usize] = canon_val(&gen_value(sig, *seed));
                        true
                    } else {
                        false
                    }
                }
                _ => is_err,
            },
            Op::SetWrongType(_) | Op::GetUnknownIface => is_err,
        }
    }
    fn apply_blind(&mut self, _op: &Op) {}
    fn key(&self) -> u64 {
        let mut h = crate::rng::Fnv::default();
        for v in &self.vals {
            h.write(v.as_bytes());
            h.write_u64(0);
        }
        h.0
    }
}

fn typed(prop: u8, v: u32) -> Val {
    match prop {
        0 => Val::Str(format!("label-{v}")),
        1 => Val::U32(v % 140),
        2 => Val::U16((v % 60000) as u16),
        3 => Val::Byte(v as u8),
        4 => Val::U64(v as u64),
        5 => Val::I32(v as i32),
        _ => Val::U32(v),
    }
}

#[derive(Clone, Debug, PartialEq)]
enum Ret {
    Value(Val),
    All(BTreeMap<String, Val>),
    Done,
    Error(String),
}

#[derive(Clone)]
struct Model {
    label: String,
    level: u32,
    quiet: u16,
}

impl SeqModel for Model {
    type Op = Op;
    type Ret = Ret;
    fn apply(&mut self, op: &Op, r: &Ret) -> bool {
        let is_err = matches!(r, Ret::Error(_));
        match op {
            Op::Get(p) => match p {
                0 => *r == Ret::Value(Val::Str(self.label.clone())),
                1 => *r == Ret::Value(Val::U32(self.level)),
                2 => *r == Ret::Value(Val::U16(self.quiet)),
                3 => *r == Ret::Value(Val::Byte(42)),
                4 => *r == Ret::Value(Val::U64(0)),
                _ => is_err,
            },
            Op::GetAll => {
                let mut m = BTreeMap::new();
                m.insert("Label".to_string(), Val::Str(self.label.clone()));
                m.insert("Level".to_string(), Val::U32(self.level));
                m.insert("Quiet".to_string(), Val::U16(self.quiet));
                m.insert("Fixed".to_string(), Val::Byte(42));
                m.insert("Counter".to_string(), Val::U64(0));
                *r == Ret::All(m)
            }
            Op::Set(p, v) => match (p, typed(*p, *v)) {
                (0, Val::Str(s)) => {
                    if *r == Ret::Done {
                        self.label = s;
                        true
                    } else {
                        false
                    }
                }
                (1, Val::U32(x)) => {
                    if x > 100 {
                        is_err
                    } else if *r == Ret::Done {
                        self.level = x;
                        true
                    } else {
                        false
                    }
                }
                (2, Val::U16(x)) => {
                    if *r == Ret::Done {
                        self.quiet = x;
                        true
                    } else {
                        false
                    }
                }
                // write-only: accepted
                (5, _) => *r == Ret::Done,
                // read-only and unknown: rejected
                _ => is_err,
            },
            Op::SetWrongType(_) | Op::GetUnknownIface => is_err,
        }
    }
    fn apply_blind(&mut self, _op: &Op) {}
    fn key(&self) -> u64 {
        let mut h = crate::rng::Fnv::default();
        h.write(self.label.as_bytes());
        h.write_u64(self.level as u64);
        h.write_u64(self.quiet as u64);
        h.0
    }
}

impl Scenario for C28Scn {
    fn id(&self) -> &'static str {
        "C28"
    }
    fn rule(&self) -> &'static str {
        "the corpus interface exposes properties of every access / emits-changed mode (read-write emitting the value, read-write with a fallible setter that invalidates, read-write silent, read-only const, read-only, write-only); a raw client issues 1..10 Get / GetAll / Set calls (right type, wrong type, unknown property, read-only, write-only, unknown interface), one at a time or pipelined; replies are decoded independently; oracle: the history must be linearizable against a property-map model (Get returns the current value, GetAll exactly the readable ones, failed Set changes nothing), and by quiescence every successful Set of an emitting property produced exactly one PropertiesChanged carrying the new value (or naming it invalidated), in Set order, and nothing else was signalled; non-trivial = at least one successful Set of an emitting property and one rejected Set"
    }
    fn runs(&self, tier: Tier) -> u64 {
        match tier {
            Tier::Quick => 6_000,
            Tier::Thorough => 400_000,
        }
    }
    fn real(&self) -> Vec<&'static str> {
        vec!["fdo::Properties Get / GetAll / Set", "property dispatch generated by #[interface] (get, get_all, set, set_mut, *_changed / *_invalidate)", "object server dispatch", "signal emission"]
    }
    fn stubbed(&self) -> Vec<&'static str> {
        vec!["client (scripted raw peer with independent codec)", "OS socket", "executor", "clock"]
    }
    fn assumptions(&self) -> Vec<&'static str> {
        vec!["a successful Set of the write-only property may or may not be signalled (there is no readable value to carry)", "the error *name* of a rejected Set/Get is not judged, only that it is an error"]
    }

    fn generate(&self, rng: &mut Rng, _idx: u64, _tier: Tier) -> (SchedCfg, Value) {
        if rng.chance(1, 2) {
            let with_props: Vec<usize> = (0..corpus_gen::N_IFACES).filter(|k| corpus_gen::n_props(*k) > 0).collect();
            let k = *rng.pick(&with_props);
            let np = corpus_gen::n_props(k) as u64;
            let writable: Vec<u8> = gen_props(k).iter().enumerate().filter(|(_, t)| t.3 != "read").map(|(i, _)| i as u8).collect();
            // a property whose type is or contains `v` accepts other types too, by definition of its Rust type
            // (part of the known finding about variant-typed properties)
            let strict: Vec<u8> = gen_props(k).iter().enumerate().filter(|(_, t)| !t.1.contains('v')).map(|(i, _)| i as u8).collect();
            let n = rng.range(1, 10);
            let ops = (0..n)
                .map(|_| match rng.below(12) {
                    0..=2 => Op::Get(rng.below(np + 1) as u8),
                    3 => Op::GetAll,
                    // prefer writable properties, but also try read-only and unknown ones
                    4..=8 => Op::Set(if !writable.is_empty() && rng.chance(2, 3) { *rng.pick(&writable) } else { rng.below(np + 1) as u8 }, rng.below(1 << 20) as u32),
                    9..=10 if !strict.is_empty() => Op::SetWrongType(*rng.pick(&strict)),
                    _ => Op::GetUnknownIface,
                })
                .collect();
            let sched = SchedCfg::generate(rng, &["method dispatcher", "obj_server_task", "socket reader"]);
            return (sched, j(&P { ops, pipelined: rng.chance(1, 2), link_in: gen_read_cfg(rng), link_out: gen_write_cfg(rng), target: Some(k) }));
        }
        let n = rng.range(1, 10);
        let ops = (0..n)
            .map(|_| match rng.below(12) {
                0..=2 => Op::Get(rng.below(7) as u8),
                3 => Op::GetAll,
                4..=8 => Op::Set(*rng.pick(&[0u8, 0, 1, 1, 2, 3, 4, 5, 6]), rng.range(0, 200) as u32),
                9..=10 => Op::SetWrongType(rng.below(3) as u8),
                _ => Op::GetUnknownIface,
            })
            .collect();
        let sched = SchedCfg::generate(rng, &["method dispatcher", "obj_server_task", "socket reader"]);
        (sched, j(&P { ops, pipelined: rng.chance(1, 2), link_in: gen_read_cfg(rng), link_out: gen_write_cfg(rng), target: None }))
    }

    fn shrink(&self, body: &Value) -> Vec<Value> {
        let p: P = unj(body);
        let mut out = vec![];
        for o in drop_candidates(&p.ops) {
            if !o.is_empty() {
                let mut q = p.clone();
                q.ops = o;
                out.push(j(&q));
            }
        }
        for f in [|q: &mut P| q.link_in = LinkCfg::default(), |q: &mut P| q.link_out = LinkCfg::default(), |q: &mut P| q.pipelined = false] {
            let mut q = p.clone();
            f(&mut q);
            if q != p {
                out.push(j(&q));
            }
        }
        out
    }

    fn run(&self, w: &World, body: &Value) -> Verdict {
        let p: P = unj(body);
        let (sock, raw) = sim_pair(w, p.link_in.clone(), p.link_out.clone(), SockCfg::default());
        let log = new_log();
        let up = shared(false);
        let (l2, u2, ww) = (log.clone(), up.clone(), w.clone());
        let server = w.spawn("server", async move {
            let b = zbus::connection::Builder::authenticated_socket(sock, GUID).unwrap().p2p().internal_executor(false).serve_at("/a", A::new(&l2, &ww, 0)).unwrap();
            let b = corpus_gen::serve_all(b, &l2, &ww).unwrap();
            if let Ok(c) = b.build().await {
                *u2.lock().unwrap() = true;
                std::future::pending::<()>().await;
                drop(c);
            }
        });

        // (invoke step, return step, reply)
        let hist = shared(Vec::<(u64, u64, Option<RawMsg>)>::new());
        let signals = shared(Vec::<RawMsg>::new());
        let (p2, raw2, h2, s2, ww) = (p.clone(), raw.clone(), hist.clone(), signals.clone(), w.clone());
        let client = w.spawn("client", async move {
            let mut r = PeerReader::new(raw2.clone());
            let build = |i: usize, op: &Op| -> RawMsg {
                let serial = 100 + i as u32;
                if let Some(k) = p2.target {
                    let props = gen_props(k);
                    let (path, iface) = (format!("/g{k}"), format!("org.gen.I{k}"));
                    let name = |pr: &u8| props.get(*pr as usize).map(|t| t.0).unwrap_or("NoSuch");
                    let sig = |pr: &u8| props.get(*pr as usize).map(|t| t.1).unwrap_or("u");
                    return match op {
                        Op::Get(pr) => RawMsg::call(serial, &path, Some(PROPS_IFACE), "Get").body(&[Val::str(&iface), Val::str(name(pr))]),
                        Op::GetAll => RawMsg::call(serial, &path, Some(PROPS_IFACE), "GetAll").body(&[Val::str(&iface)]),
                        Op::Set(pr, v) => RawMsg::call(serial, &path, Some(PROPS_IFACE), "Set").body(&[Val::str(&iface), Val::str(name(pr)), Val::Variant(Box::new(gen_value(sig(pr), *v)))]),
                        Op::SetWrongType(pr) => RawMsg::call(serial, &path, Some(PROPS_IFACE), "Set").body(&[Val::str(&iface), Val::str(name(pr)), Val::Variant(Box::new(wrong_typed(sig(pr))))]),
                        Op::GetUnknownIface => RawMsg::call(serial, &path, Some(PROPS_IFACE), "Get").body(&[Val::str("org.gen.Nope"), Val::str(name(&0))]),
                    };
                }
                match op {
                    Op::Get(pr) => RawMsg::call(serial, "/a", Some(PROPS_IFACE), "Get").body(&[Val::str("org.sim.A"), Val::str(PROPS[*pr as usize])]),
                    Op::GetAll => RawMsg::call(serial, "/a", Some(PROPS_IFACE), "GetAll").body(&[Val::str("org.sim.A")]),
                    Op::Set(pr, v) => RawMsg::call(serial, "/a", Some(PROPS_IFACE), "Set").body(&[Val::str("org.sim.A"), Val::str(PROPS[*pr as usize]), Val::Variant(Box::new(typed(*pr, *v)))]),
                    Op::SetWrongType(pr) => RawMsg::call(serial, "/a", Some(PROPS_IFACE), "Set").body(&[Val::str("org.sim.A"), Val::str(PROPS[*pr as usize]), Val::Variant(Box::new(Val::Struct(vec![Val::Bool(true), Val::F64(1.5)])))]),
                    Op::GetUnknownIface => RawMsg::call(serial, "/a", Some(PROPS_IFACE), "Get").body(&[Val::str("org.sim.Nope"), Val::str("Label")]),
                }
            };
            let mut outstanding = 0usize;
            for (i, op) in p2.ops.iter().enumerate() {
                h2.lock().unwrap().push((ww.steps(), u64::MAX, None));
                raw2.write(&build(i, op).encode());
                outstanding += 1;
                if !p2.pipelined {
                    // wait for this reply
                    while outstanding > 0 {
                        match r.msg().await {
                            Ok(Some(m)) => {
                                if m.mtype == T_SIGNAL {
                                    s2.lock().unwrap().push(m);
                                } else if let Some(rs) = m.reply_serial() {
                                    let k = (rs - 100) as usize;
                                    let mut h = h2.lock().unwrap();
                                    if k < h.len() {
                                        h[k].1 = ww.steps();
                                        h[k].2 = Some(m);
                                    }
                                    outstanding -= 1;
                                }
                            }
                            _ => return,
                        }
                    }
                }
            }
            loop {
                match r.msg().await {
                    Ok(Some(m)) => {
                        if m.mtype == T_SIGNAL {
                            s2.lock().unwrap().push(m);
                        } else if let Some(rs) = m.reply_serial() {
                            let k = (rs.wrapping_sub(100)) as usize;
                            let mut h = h2.lock().unwrap();
                            if k < h.len() {
                                h[k].1 = ww.steps();
                                h[k].2 = Some(m);
                            }
                        }
                    }
                    _ => return,
                }
            }
        });
        w.run();
        let ok = *up.lock().unwrap();
        let hist_v = hist.lock().unwrap().clone();
        let sigs = signals.lock().unwrap().clone();
        drop(server);
        drop(client);
        raw.tx.drop_wakers();
        raw.rx.drop_wakers();
        if !ok {
            return Verdict::harness("server did not come up");
        }

        if let Some(k) = p.target {
            return judge_generated(w, &p, k, &hist_v, &sigs);
        }
        // ---- decode replies ----
        let mut ops: Vec<HistOp<Op, Ret>> = vec![];
        for (i, (inv, ret, reply)) in hist_v.iter().enumerate() {
            let op = p.ops[i].clone();
            let Some(m) = reply else {
                return Verdict::fail("hang", "call-unanswered", format!("call {i} {op:?} was never answered"));
            };
            let r = if m.mtype == T_ERROR {
                Ret::Error(m.error_name().unwrap_or("").to_string())
            } else if m.mtype == T_RETURN {
                let vals = match m.body_vals() {
                    Ok(v) => v,
                    Err(e) => return Verdict::fail("reply", "undecodable-reply", format!("call {i} {op:?}: {e}")),
                };
                match (&op, vals.as_slice()) {
                    (Op::Get(_) | Op::GetUnknownIface, [Val::Variant(v)]) => Ret::Value((**v).clone()),
                    (Op::GetAll, [Val::Array(_, entries)]) => {
                        let mut map = BTreeMap::new();
                        for e in entries {
                            if let Val::DictEntry(k, v) = e {
                                map.insert(k.as_str().unwrap_or("").to_string(), v.unvariant().clone());
                            }
                        }
                        if map.len() != entries.len() {
                            return Verdict::fail("reply", "getall-duplicate-keys", format!("GetAll returned {entries:?}"));
                        }
                        Ret::All(map)
                    }
                    (Op::Set(..) | Op::SetWrongType(_), []) => Ret::Done,
                    (_, other) => return Verdict::fail("reply", "reply-shape", format!("call {i} {op:?} returned {other:?}")),
                }
            } else {
                return Verdict::fail("reply", "reply-type", format!("call {i} {op:?}: reply of type {}", m.mtype));
            };
            ops.push(HistOp { invoke: *inv, ret: *ret, op, result: Some(r), who: "client".into() });
        }
        let init = Model { label: "label-0".into(), level: 1, quiet: 7 };
        if !linearizable(&init, &ops) {
            let seq: Vec<String> = ops.iter().map(|o| format!("{:?} -> {:?}", o.op, o.result.as_ref().unwrap())).collect();
            // discriminate by the first op that can never be right on its own
            let kind = ops
                .iter()
                .find_map(|o| match (&o.op, o.result.as_ref().unwrap()) {
                    (Op::GetAll, Ret::All(m)) if m.contains_key("Secret") => Some("getall-lists-write-only"),
                    (Op::GetAll, Ret::All(m)) if m.len() != 5 => Some("getall-wrong-set"),
                    (Op::SetWrongType(_), Ret::Done) => Some("wrong-type-accepted"),
                    (Op::Set(3, _) | Op::Set(4, _), Ret::Done) => Some("read-only-set-accepted"),
                    (Op::Set(6, _), Ret::Done) => Some("unknown-property-set-accepted"),
                    _ => None,
                })
                .unwrap_or("values-inconsistent");
            return Verdict::fail("linearizability", kind, format!("no linearization against the property model ({}): {seq:?}", if p.pipelined { "pipelined" } else { "sequential" }));
        }
        // ---- signals ----
        // expected per property, in Set order (sets on one property are ordered by reply order when pipelined; we
        // only require the multiset per property plus the final value being last)
        let mut want_label: Vec<String> = vec![];
        let mut want_level = 0usize;
        for o in &ops {
            if let (Op::Set(pr, v), Some(Ret::Done)) = (&o.op, &o.result) {
                match (pr, typed(*pr, *v)) {
                    (0, Val::Str(s)) => want_label.push(s),
                    (1, _) => want_level += 1,
                    _ => {}
                }
            }
        }
        let mut got_label: Vec<String> = vec![];
        let mut got_level = 0usize;
        for s in &sigs {
            if s.interface() != Some(PROPS_IFACE) || s.member() != Some("PropertiesChanged") {
                return Verdict::fail("signal", "foreign-signal", format!("unexpected signal {s:?}"));
            }
            let vals = s.body_vals().unwrap_or_default();
            let (iface, changed, inval) = match vals.as_slice() {
                [Val::Str(i), Val::Array(_, c), Val::Array(_, iv)] => (i.clone(), c.clone(), iv.clone()),
                other => return Verdict::fail("signal", "signal-shape", format!("PropertiesChanged body {other:?}")),
            };
            if iface != "org.sim.A" {
                return Verdict::fail("signal", "signal-interface", format!("PropertiesChanged for {iface}"));
            }
            for c in &changed {
                if let Val::DictEntry(k, v) = c {
                    match (k.as_str(), v.unvariant()) {
                        (Some("Label"), Val::Str(s)) => got_label.push(s.clone()),
                        (Some("Secret"), _) => {}
                        (k, v) => return Verdict::fail("signal", "unexpected-changed-property", format!("PropertiesChanged carries {k:?} = {v:?}")),
                    }
                }
            }
            for i in &inval {
                match i.as_str() {
                    Some("Level") => got_level += 1,
                    Some("Secret") => {}
                    other => return Verdict::fail("signal", "unexpected-invalidated-property", format!("PropertiesChanged invalidates {other:?}")),
                }
            }
        }
        let (mut a, mut b) = (want_label.clone(), got_label.clone());
        a.sort();
        b.sort();
        if a != b {
            let disc = if got_label.len() > want_label.len() { "extra-changed-signal" } else if got_label.len() < want_label.len() { "missing-changed-signal" } else { "changed-signal-wrong-value" };
            return Verdict::fail("signal", disc, format!("successful Label sets {want_label:?}, PropertiesChanged values {got_label:?}"));
        }
        if !p.pipelined && got_label != want_label {
            return Verdict::fail("signal", "changed-signal-order", format!("Label sets {want_label:?}, signals {got_label:?}"));
        }
        if got_level != want_level {
            return Verdict::fail("signal", if got_level > want_level { "extra-invalidation-signal" } else { "missing-invalidation-signal" }, format!("{want_level} successful Level sets, {got_level} invalidation signals"));
        }
        let ok_emit = !want_label.is_empty() || want_level > 0;
        let rejected = ops.iter().any(|o| matches!(o.op, Op::Set(..) | Op::SetWrongType(_)) && matches!(o.result, Some(Ret::Error(_))));
        if ok_emit && rejected {
            w.count("probe.successful_emitting_set_and_rejected_set");
        }
        Verdict::ok(ok_emit && rejected)
    }
}

/// Oracle for a generated interface: same rules as for the hand-written one, driven by `corpus_gen::PROPS`.
fn judge_generated(w: &World, p: &P, k: usize, hist_v: &[(u64, u64, Option<RawMsg>)], sigs: &[RawMsg]) -> Verdict {
    let props = gen_props(k);
    let iface_name = format!("org.gen.I{k}");
    let mut ops: Vec<HistOp<Op, GRet>> = vec![];
    // A property declared `v` whose value arrives as the inner value directly (not as a variant holding a
    // variant): recorded, the value is judged as if it had been wrapped, and reported last so that
    // everything else is still judged on these runs.
    let mut flattened: Option<String> = None;
    let mut typed_canon = |t: &(&str, &str, &str, &str), v: &Val, at: &str| -> Result<String, Verdict> {
        if v.sig() == t.1 {
            Ok(canon_val(v))
        } else if t.1 == "v" {
            flattened.get_or_insert_with(|| format!("I{k}.{} is declared with type \"v\" but {at} carries a value of type {:?} directly instead of a variant holding it", t.0, v.sig()));
            Ok(format!("<{}>", canon_val(v)))
        } else {
            Err(Verdict::fail("reply", format!("{at}-type-declared-{}", t.1), format!("I{k}: {at} carries {} with type {:?}, the property is declared {:?}", t.0, v.sig(), t.1)))
        }
    };
    for (i, (inv, ret, reply)) in hist_v.iter().enumerate() {
        let op = p.ops[i].clone();
        let Some(m) = reply else {
            return Verdict::fail("hang", "call-unanswered", format!("I{k}: call {i} {op:?} was never answered"));
        };
        let r = if m.mtype == T_ERROR {
            GRet::Error
        } else if m.mtype == T_RETURN {
            let vals = match m.body_vals() {
                Ok(v) => v,
                Err(e) => return Verdict::fail("reply", "undecodable-reply", format!("I{k}: call {i} {op:?}: {e}")),
            };
            match (&op, vals.as_slice()) {
                // the variant must hold a value of the declared type
                (Op::Get(pr), [Val::Variant(v)]) => match props.get(*pr as usize) {
                    Some(t) => match typed_canon(t, v, "Get") {
                        Ok(c) => GRet::Value(c),
                        Err(e) => return e,
                    },
                    None => GRet::Value(canon_val(v)),
                },
                (Op::GetUnknownIface, [Val::Variant(v)]) => GRet::Value(canon_val(v)),
                (Op::GetAll, [Val::Array(_, entries)]) => {
                    let mut map = BTreeMap::new();
                    for e in entries {
                        if let Val::DictEntry(key, v) = e {
                            let name = key.as_str().unwrap_or("").to_string();
                            let c = match props.iter().find(|t| t.0 == name) {
                                Some(t) => match typed_canon(t, v.unvariant(), "GetAll") {
                                    Ok(c) => c,
                                    Err(e) => return e,
                                },
                                None => canon_val(v.unvariant()),
                            };
                            map.insert(name, c);
                        }
                    }
                    if map.len() != entries.len() {
                        return Verdict::fail("reply", "getall-duplicate-keys", format!("I{k}: GetAll returned {entries:?}"));
                    }
                    GRet::All(map)
                }
                (Op::Set(..) | Op::SetWrongType(_), []) => GRet::Done,
                (_, other) => return Verdict::fail("reply", "reply-shape", format!("I{k}: call {i} {op:?} returned {other:?}")),
            }
        } else {
            return Verdict::fail("reply", "reply-type", format!("I{k}: call {i} {op:?}: reply of type {}", m.mtype));
        };
        ops.push(HistOp { invoke: *inv, ret: *ret, op, result: Some(r), who: "client".into() });
    }
    let init = GModel { k, vals: corpus_gen::initial_canon(k) };
    if !linearizable(&init, &ops) {
        let seq: Vec<String> = ops.iter().map(|o| format!("{:?} -> {:?}", o.op, o.result.as_ref().unwrap())).collect();
        let readable = props.iter().filter(|t| t.3 != "write").count();
        let kind = ops
            .iter()
            .find_map(|o| match (&o.op, o.result.as_ref().unwrap()) {
                (Op::GetAll, GRet::All(m)) if m.len() != readable => Some("getall-wrong-set".to_string()),
                (Op::SetWrongType(_), GRet::Done) => Some("wrong-type-accepted".to_string()),
                (Op::Set(pr, _), GRet::Done) if props.get(*pr as usize).map_or(true, |t| t.3 == "read") => Some("read-only-or-unknown-set-accepted".to_string()),
                (Op::Set(pr, _), GRet::Error) if props.get(*pr as usize).map_or(false, |t| t.3 != "read") => Some(format!("valid-set-rejected-{}", props[*pr as usize].1)),
                (Op::Get(pr), GRet::Error) if props.get(*pr as usize).map_or(false, |t| t.3 != "write") => Some("readable-get-rejected".to_string()),
                _ => None,
            })
            .unwrap_or("values-inconsistent".to_string());
        return Verdict::fail("linearizability", format!("generated-{kind}"), format!("I{k} {props:?}: no linearization against the property model ({}): {seq:?}", if p.pipelined { "pipelined" } else { "sequential" }));
    }
    // ---- signals: per property, successful Sets of an emitting property vs. PropertiesChanged entries ----
    let n = props.len();
    let mut want_changed: Vec<Vec<String>> = vec![vec![]; n];
    let mut want_inval = vec![0usize; n];
    for o in &ops {
        if let (Op::Set(pr, seed), Some(GRet::Done)) = (&o.op, &o.result) {
            let t = props[*pr as usize];
            match t.2 {
                "true" => want_changed[*pr as usize].push(canon_val(&gen_value(t.1, *seed))),
                "invalidates" => want_inval[*pr as usize] += 1,
                _ => {}
            }
        }
    }
    let mut got_changed: Vec<Vec<String>> = vec![vec![]; n];
    let mut got_inval = vec![0usize; n];
    for s in sigs {
        if s.interface() != Some(PROPS_IFACE) || s.member() != Some("PropertiesChanged") {
            return Verdict::fail("signal", "foreign-signal", format!("I{k}: unexpected signal {s:?}"));
        }
        let vals = s.body_vals().unwrap_or_default();
        let (iface, changed, inval) = match vals.as_slice() {
            [Val::Str(i), Val::Array(_, c), Val::Array(_, iv)] => (i.clone(), c.clone(), iv.clone()),
            other => return Verdict::fail("signal", "signal-shape", format!("I{k}: PropertiesChanged body {other:?}")),
        };
        if iface != iface_name {
            return Verdict::fail("signal", "signal-interface", format!("PropertiesChanged for {iface}, expected {iface_name}"));
        }
        for c in &changed {
            if let Val::DictEntry(key, v) = c {
                match props.iter().position(|t| Some(t.0) == key.as_str()) {
                    Some(i) if props[i].2 == "true" => match typed_canon(&props[i], v.unvariant(), "PropertiesChanged") {
                        Ok(c) => got_changed[i].push(c),
                        Err(e) => return e,
                    },
                    _ => return Verdict::fail("signal", "unexpected-changed-property", format!("I{k}: PropertiesChanged carries {key:?} = {v:?}")),
                }
            }
        }
        for i in &inval {
            match props.iter().position(|t| Some(t.0) == i.as_str()) {
                Some(i) if props[i].2 == "invalidates" || (props[i].2 == "true" && props[i].3 == "write") => got_inval[i] += 1,
                _ => return Verdict::fail("signal", "unexpected-invalidated-property", format!("I{k}: PropertiesChanged invalidates {i:?}")),
            }
        }
    }
    for i in 0..n {
        // a write-only property has no readable value to carry: whether and how its Set is signalled is not judged
        if props[i].3 == "write" {
            continue;
        }
        let (mut a, mut b) = (want_changed[i].clone(), got_changed[i].clone());
        a.sort();
        b.sort();
        if a != b {
            let disc = if b.len() > a.len() { "extra-changed-signal" } else if b.len() < a.len() { "missing-changed-signal" } else { "changed-signal-wrong-value" };
            return Verdict::fail("signal", format!("generated-{disc}"), format!("I{k}.{}: successful sets {:?}, PropertiesChanged values {:?}", props[i].0, want_changed[i], got_changed[i]));
        }
        if !p.pipelined && got_changed[i] != want_changed[i] {
            return Verdict::fail("signal", "generated-changed-signal-order", format!("I{k}.{}: sets {:?}, signals {:?}", props[i].0, want_changed[i], got_changed[i]));
        }
        if got_inval[i] != want_inval[i] {
            return Verdict::fail("signal", if got_inval[i] > want_inval[i] { "generated-extra-invalidation-signal" } else { "generated-missing-invalidation-signal" }, format!("I{k}.{}: {} successful sets, {} invalidation signals", props[i].0, want_inval[i], got_inval[i]));
        }
    }
    let ok_emit = want_changed.iter().any(|v| !v.is_empty()) || want_inval.iter().any(|c| *c > 0);
    let rejected = ops.iter().any(|o| matches!(o.op, Op::Set(..) | Op::SetWrongType(_)) && matches!(o.result, Some(GRet::Error)));
    w.count("probe.generated_interface_target");
    if let Some(d) = flattened {
        return Verdict::fail("reply", "variant-typed-property-flattened", d);
    }
    if ok_emit && rejected {
        w.count("probe.generated_successful_emitting_set_and_rejected_set");
    }
    Verdict::ok(ok_emit || rejected)
}
