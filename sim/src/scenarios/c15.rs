//! C15 — message serial numbers are never zero and never repeat.
use serde::{Deserialize, Serialize};
use serde_json::Value;
use zbus::Message;

use super::common::*;
use crate::{
    framework::{Scenario, Tier, Verdict},
    kernel::{Decisions, SchedCfg, Strategy, World},
    rng::Rng,
};

pub struct C15Scn;
pub static C15: C15Scn = C15Scn;

#[derive(Clone, Copy, Debug, Serialize, Deserialize, PartialEq)]
enum Kind {
    Call,
    Signal,
    Return,
    Error,
}

#[derive(Clone, Debug, Serialize, Deserialize, PartialEq)]
struct P {
    start: u32,
    threads: Vec<Vec<Kind>>,
}

impl Scenario for C15Scn {
    fn id(&self) -> &'static str {
        "C15"
    }
    fn rule(&self) -> &'static str {
        "2..4 real threads (parked and released one at a time by the seeded scheduler at every operation on the instrumented process-wide serial counter) each build 1..4 messages of all four types; the counter is preset to 0, 1, u32::MAX-k (k<=6) or a random value; oracle: every serial non-zero, all serials of the run pairwise distinct; non-trivial = the run crossed the wrap point or the atomic operations of two threads interleaved (some thread ran between two operations of another); distinct = distinct (plan, interleaving) pairs"
    }
    fn runs(&self, tier: Tier) -> u64 {
        match tier {
            Tier::Quick => 6_000,
            Tier::Thorough => 400_000,
        }
    }
    fn real(&self) -> Vec<&'static str> {
        vec!["message::Builder / PrimaryHeader::new on real std threads", "the process-wide SERIAL_NUM counter (std atomic behind a scheduling-point wrapper)"]
    }
    fn stubbed(&self) -> Vec<&'static str> {
        vec!["thread scheduling (baton scheduler: a thread only runs between two scheduling points when picked)"]
    }
    fn assumptions(&self) -> Vec<&'static str> {
        vec!["interleavings are explored at the granularity of whole atomic operations (sequentially consistent); weaker memory orderings are not modelled"]
    }

    fn generate(&self, rng: &mut Rng, _idx: u64, _tier: Tier) -> (SchedCfg, Value) {
        let start = match rng.below(5) {
            0 => 0,
            1 => 1,
            2 | 3 => u32::MAX - rng.below(7) as u32,
            _ => rng.next_u64() as u32,
        };
        let nt = rng.range(2, 4);
        let threads = (0..nt)
            .map(|_| (0..rng.range(1, 4)).map(|_| *rng.pick(&[Kind::Call, Kind::Signal, Kind::Return, Kind::Error])).collect())
            .collect();
        let mut sched = SchedCfg::generate(rng, &[]);
        if let Strategy::Sticky { .. } = sched.strategy {
            sched.strategy = Strategy::Uniform;
        }
        (sched, j(&P { start, threads }))
    }

    fn shrink(&self, body: &Value) -> Vec<Value> {
        let p: P = unj(body);
        let mut out = vec![];
        for t in drop_candidates(&p.threads) {
            if t.len() >= 1 {
                let mut q = p.clone();
                q.threads = t;
                out.push(j(&q));
            }
        }
        for (i, t) in p.threads.iter().enumerate() {
            for ks in drop_candidates(t) {
                if !ks.is_empty() {
                    let mut q = p.clone();
                    q.threads[i] = ks;
                    out.push(j(&q));
                }
            }
        }
        out
    }

    fn run(&self, w: &World, body: &Value) -> Verdict {
        let p: P = unj(body);
        zbus::verif::set_serial(p.start);
        // a header to reply to (built before the threads start; takes one serial itself)
        let call = Message::method_call("/c15", "Ping").unwrap().sender(":1.1").unwrap().build(&()).unwrap();
        let first = call.primary_header().serial_num().get();
        let serials = shared(vec![(usize::MAX, first)]);
        let order = shared(Vec::<usize>::new());
        for (ti, kinds) in p.threads.iter().enumerate() {
            let kinds = kinds.clone();
            let serials = serials.clone();
            let call = call.clone();
            let order = order.clone();
            w.spawn_thread(&format!("builder-{ti}"), move || {
                for k in kinds {
                    let hdr = call.header();
                    let m = match k {
                        Kind::Call => Message::method_call("/c15", "M").unwrap().build(&()),
                        Kind::Signal => Message::signal("/c15", "org.c15.I", "S").unwrap().build(&()),
                        Kind::Return => Message::method_return(&hdr).unwrap().build(&()),
                        Kind::Error => Message::error(&hdr, "org.c15.E").unwrap().build(&()),
                    }
                    .expect("build");
                    serials.lock().unwrap().push((ti, m.primary_header().serial_num().get()));
                    order.lock().unwrap().push(ti);
                }
            });
        }
        w.run();
        if w.threads_unfinished() > 0 {
            return Verdict::harness("a builder thread did not finish");
        }
        let got = serials.lock().unwrap().clone();
        for (t, s) in &got {
            if *s == 0 {
                return Verdict::fail("zero", "zero-serial", format!("thread {t} built a message with serial 0 (counter preset {})", p.start));
            }
        }
        let mut sorted: Vec<u32> = got.iter().map(|x| x.1).collect();
        sorted.sort_unstable();
        if let Some(w2) = sorted.windows(2).find(|w2| w2[0] == w2[1]) {
            let who: Vec<usize> = got.iter().filter(|x| x.1 == w2[0]).map(|x| x.0).collect();
            return Verdict::fail("dup", "duplicate-serial", format!("serial {} was given to two messages (threads {who:?}); counter preset {}, all: {got:?}", w2[0], p.start));
        }
        let n = got.len() as u64;
        let wrapped = (p.start as u64) + n + 1 > u32::MAX as u64 || p.start == 0;
        let ord = order.lock().unwrap().clone();
        // interleaved: thread a, then b, then a again
        let interleaved = ord.windows(2).filter(|x| x[0] != x[1]).count() >= p.threads.len().min(ord.len());
        if wrapped {
            w.count("probe.wrap_boundary_crossed");
        }
        if interleaved {
            w.count("probe.threads_interleaved");
        }
        let _ = Decisions::Seeded(0);
        Verdict::ok(wrapped || interleaved)
    }
}
