//! C37 — bus match registrations mirror the live signal subscriptions.
use std::collections::{BTreeMap, BTreeSet};

use serde::{Deserialize, Serialize};
use serde_json::Value;
use zbus::{proxy::SignalStream, AsyncDrop, Connection, MatchRule, MessageStream, Proxy};

use super::common::*;
use crate::{
    fakebus::{run_bus, Bus, BusCfg, BusState},
    framework::{Scenario, Tier, Verdict},
    kernel::{SchedCfg, World},
    net::{sim_pair, LinkCfg, SockCfg},
    rng::Rng,
};

pub struct C37Scn;
pub static C37: C37Scn = C37Scn;

const DESTS: &[&str] = &["org.c37.Svc", ":1.50", "org.c37.Other"];
const MEMBERS: &[&str] = &["Changed", "Ping"];

/// Stream rule alphabet (overlapping on purpose).
fn stream_rule(i: u8) -> MatchRule<'static> {
    let b = MatchRule::builder();
    match i % 6 {
        0 => b.msg_type(zbus::message::Type::Signal).interface("org.c37.I").unwrap().build(),
        1 => b.msg_type(zbus::message::Type::Signal).interface("org.c37.I").unwrap().member("Changed").unwrap().build(),
        2 => b.interface("org.c37.I").unwrap().build(), // no type: treated as a signal rule
        3 => b.msg_type(zbus::message::Type::Signal).sender(":1.50").unwrap().build(),
        4 => b.msg_type(zbus::message::Type::MethodCall).interface("org.c37.I").unwrap().build(), // never goes to the bus
        _ => b.msg_type(zbus::message::Type::Signal).path("/c37").unwrap().build(),
    }
}

fn proxy_signal_rule(dest: &str, member: Option<&str>) -> String {
    let mut b = MatchRule::builder().msg_type(zbus::message::Type::Signal).sender(dest).unwrap().path("/c37").unwrap().interface("org.c37.I").unwrap();
    if let Some(m) = member {
        b = b.member(m).unwrap();
    }
    b.build().to_string()
}

fn noc_rule(name: &str) -> String {
    MatchRule::builder()
        .msg_type(zbus::message::Type::Signal)
        .sender("org.freedesktop.DBus")
        .unwrap()
        .path("/org/freedesktop/DBus")
        .unwrap()
        .interface("org.freedesktop.DBus")
        .unwrap()
        .member("NameOwnerChanged")
        .unwrap()
        .add_arg(name)
        .unwrap()
        .build()
        .to_string()
}

#[derive(Clone, Copy, Debug, Serialize, Deserialize, PartialEq)]
enum Op {
    Stream { id: u8, rule: u8 },
    Proxy { id: u8, dest: u8 },
    /// signal stream `id` on proxy `proxy` for one member (or all signals)
    Signals { id: u8, proxy: u8, member: Option<u8> },
    /// drop handle `id` (streams: sync `Drop` or `async_drop`)
    Drop { id: u8, asynchronous: bool },
    /// the bus refuses the next AddMatch it receives (out of quota): that creation fails, and nothing of it
    /// may stay behind
    RefuseNextAdd,
}

#[derive(Clone, Debug, Serialize, Deserialize, PartialEq)]
struct P {
    /// batches of operations that run concurrently; quiescence between batches
    batches: Vec<Vec<Op>>,
    link: LinkCfg,
    bus_delays: bool,
    /// fault kind `cancel_task`: (batch, operation, await points survived) - that operation's task is dropped
    /// in the middle of creating / dropping its handle
    #[serde(default)]
    cancel: Option<(u8, u8, u32)>,
}

enum Handle {
    Stream(MessageStream),
    Proxy(Proxy<'static>),
    Signals(SignalStream<'static>),
}

#[derive(Clone, Debug)]
enum Model {
    Stream(u8),
    Proxy { dest: u8, subscribed: bool },
    Signals { proxy: u8, dest: u8, member: Option<u8> },
}

fn is_well_known(dest: u8) -> bool {
    !DESTS[dest as usize].starts_with(':')
}

fn expected_rules(model: &BTreeMap<u8, Model>) -> BTreeSet<String> {
    let mut s = BTreeSet::new();
    for m in model.values() {
        match m {
            Model::Stream(r) => {
                let rule = stream_rule(*r);
                if rule.msg_type().map(|t| t == zbus::message::Type::Signal).unwrap_or(true) {
                    s.insert(rule.to_string());
                }
            }
            Model::Proxy { dest, subscribed } => {
                if *subscribed && is_well_known(*dest) {
                    s.insert(noc_rule(DESTS[*dest as usize]));
                }
            }
            Model::Signals { dest, member, .. } => {
                s.insert(proxy_signal_rule(DESTS[*dest as usize], member.map(|m| MEMBERS[m as usize])));
                if is_well_known(*dest) {
                    s.insert(noc_rule(DESTS[*dest as usize]));
                }
            }
        }
    }
    s
}

impl Scenario for C37Scn {
    fn id(&self) -> &'static str {
        "C37"
    }
    fn rule(&self) -> &'static str {
        "a bus connection against the fake bus (which records AddMatch / RemoveMatch) runs 2..8 batches of 1..2 concurrent operations, quiescence between batches: create a MessageStream for one of 6 overlapping rules (incl. an untyped rule and a method-call rule that must never reach the bus), create a proxy (well-known or unique destination), create a proxy signal stream (one member or all signals; for well-known names this also subscribes to NameOwnerChanged twice and looks the owner up), drop any of them (Drop or async_drop); now and then the bus refuses the next AddMatch (the creation that sent it must fail and leave nothing behind; a later subscription to the same rule must register it); in a third of the runs one bus-talking operation is cancelled at one of its first await points (fault kind cancel_task; its handle then exists or not, and the bus must agree with whatever exists); oracle after every batch: the rules added and not removed == the distinct signal rules with a live subscriber, each exactly once, no AddMatch of a registered rule, no RemoveMatch of an unregistered one; non-trivial = two live subscribers shared one rule at some point, or two operations on the same rule ran concurrently"
    }
    fn runs(&self, tier: Tier) -> u64 {
        match tier {
            Tier::Quick => 5_000,
            Tier::Thorough => 300_000,
        }
    }
    fn real(&self) -> Vec<&'static str> {
        vec!["Connection::add_match / remove_match / queue_remove_match", "MessageStream Drop / AsyncDrop", "Proxy::receive_signal(s), ProxyInner::subscribe_dest_owner_change, SignalStream::new / async_drop", "ProxyInnerStatic drop"]
    }
    fn stubbed(&self) -> Vec<&'static str> {
        vec!["message bus (fake driver recording match calls)", "OS socket", "executor", "clock"]
    }

    fn generate(&self, rng: &mut Rng, _idx: u64, _tier: Tier) -> (SchedCfg, Value) {
        let nb = rng.range(2, 8);
        let mut batches = vec![];
        let mut kinds: BTreeMap<u8, u8> = BTreeMap::new(); // id -> 0 stream, 1 proxy, 2 signals
        let mut next = 0u8;
        for _ in 0..nb {
            let mut batch = vec![];
            let mut touched: Vec<u8> = vec![];
            for _ in 0..rng.range(1, 2) {
                let proxies: Vec<u8> = kinds.iter().filter(|(id, k)| **k == 1 && !touched.contains(id)).map(|(id, _)| *id).collect();
                let droppable: Vec<u8> = kinds.keys().copied().filter(|id| !touched.contains(id)).collect();
                let op = match rng.below(11) {
                    10 => Op::RefuseNextAdd,
                    0..=2 => {
                        next += 1;
                        kinds.insert(next, 0);
                        Op::Stream { id: next, rule: rng.below(6) as u8 }
                    }
                    3 => {
                        next += 1;
                        kinds.insert(next, 1);
                        Op::Proxy { id: next, dest: rng.below(3) as u8 }
                    }
                    4..=5 if !proxies.is_empty() => {
                        next += 1;
                        kinds.insert(next, 2);
                        Op::Signals { id: next, proxy: *rng.pick(&proxies), member: if rng.chance(1, 3) { None } else { Some(rng.below(2) as u8) } }
                    }
                    6..=8 if !droppable.is_empty() => {
                        let id = *rng.pick(&droppable);
                        kinds.remove(&id);
                        Op::Drop { id, asynchronous: rng.chance(1, 2) }
                    }
                    _ => {
                        next += 1;
                        kinds.insert(next, 1);
                        Op::Proxy { id: next, dest: 0 }
                    }
                };
                match op {
                    Op::RefuseNextAdd => {}
                    Op::Drop { id, .. } => touched.push(id),
                    Op::Signals { id, .. } => touched.push(id),
                    Op::Stream { id, .. } | Op::Proxy { id, .. } => touched.push(id),
                }
                batch.push(op);
            }
            batches.push(batch);
        }
        let sched = SchedCfg::generate(rng, &["Remove match", "op", "socket reader"]);
        // cancel an operation that talks to the bus, early
        let talkers: Vec<(u8, u8)> = batches
            .iter()
            .enumerate()
            .flat_map(|(bi, b)| b.iter().enumerate().filter(|(_, o)| matches!(o, Op::Stream { .. } | Op::Signals { .. } | Op::Drop { asynchronous: true, .. })).map(move |(oi, _)| (bi as u8, oi as u8)))
            .collect();
        let cancel = if !talkers.is_empty() && rng.chance(1, 3) {
            let (bi, oi) = *rng.pick(&talkers);
            Some((bi, oi, rng.below(4) as u32))
        } else {
            None
        };
        (sched, j(&P { batches, link: gen_read_cfg(rng), bus_delays: rng.chance(2, 3), cancel }))
    }

    fn shrink(&self, body: &Value) -> Vec<Value> {
        let p: P = unj(body);
        let mut out = vec![];
        if p.batches.len() > 1 && p.cancel.map_or(true, |c| (c.0 as usize) < p.batches.len() - 1) {
            let mut q = p.clone();
            q.batches.pop();
            out.push(j(&q));
        }
        if let Some((b, o, n)) = p.cancel {
            let mut q = p.clone();
            q.cancel = None;
            out.push(j(&q));
            if n > 0 {
                let mut q = p.clone();
                q.cancel = Some((b, o, n - 1));
                out.push(j(&q));
            }
        }
        // drop one op (and everything that refers to the handle it created)
        for (bi, b) in p.batches.iter().enumerate() {
            for (oi, op) in b.iter().enumerate() {
                // with a cancellation only operations of later batches are dropped (indices stay valid)
                if p.cancel.map_or(false, |c| bi <= c.0 as usize) {
                    continue;
                }
                let mut q = p.clone();
                q.batches[bi].remove(oi);
                if let Op::Stream { id, .. } | Op::Proxy { id, .. } | Op::Signals { id, .. } = op {
                    for bb in &mut q.batches {
                        bb.retain(|o| !matches!(o, Op::Drop { id: i, .. } | Op::Signals { proxy: i, .. } if i == id));
                    }
                }
                q.batches.retain(|b| !b.is_empty());
                if !q.batches.is_empty() {
                    out.push(j(&q));
                }
            }
        }
        for f in [|q: &mut P| q.link = LinkCfg::default(), |q: &mut P| q.bus_delays = false] {
            let mut q = p.clone();
            f(&mut q);
            if q != p {
                out.push(j(&q));
            }
        }
        out
    }

    fn run(&self, w: &World, body: &Value) -> Verdict {
        let p: P = unj(body);
        let (sock, raw) = sim_pair(w, p.link.clone(), LinkCfg::default(), SockCfg::default());
        let bus: Bus = shared(BusState::default());
        bus.lock().unwrap().owners.insert("org.c37.Svc".into(), ":1.50".into());
        let bus_task = w.spawn("bus", run_bus(w.clone(), raw.clone(), bus.clone(), BusCfg { delays: p.bus_delays, after_hello: vec![] }));
        let conn_slot = shared(None::<Result<Connection, String>>);
        let cs = conn_slot.clone();
        let setup = w.spawn("setup", async move {
            *cs.lock().unwrap() = Some(build_bus_client(sock).await.map_err(|e| e.to_string()));
        });
        w.run();
        drop(setup);
        let conn = match conn_slot.lock().unwrap().take() {
            Some(Ok(c)) => c,
            other => return Verdict::harness(format!("bus connection did not build: {:?}", other.map(|r| r.err()))),
        };

        let handles: Shared<BTreeMap<u8, Handle>> = shared(BTreeMap::new());
        let mut model: BTreeMap<u8, Model> = BTreeMap::new();
        let mut verdict = None;
        let mut nontrivial = false;
        let mut cancelled_seen = false;
        let mut refused_seen = false;
        let mut maybe_subscribed: BTreeMap<u8, u8> = BTreeMap::new();
        for (bi, batch) in p.batches.iter().enumerate() {
            let errors = shared(Vec::<String>::new());
            let mut tasks = vec![];
            let refused_before = bus.lock().unwrap().refused.len();
            bus.lock().unwrap().refuse_adds += batch.iter().filter(|o| matches!(o, Op::RefuseNextAdd)).count() as u32;
            for (oi, op) in batch.iter().enumerate() {
                let cancel_at = match p.cancel {
                    Some((b, o, n)) if b as usize == bi && o as usize == oi => Some(n),
                    _ => None,
                };
                if cancel_at.is_some() {
                    cancelled_seen = true;
                }
                let (conn, handles, errors) = (conn.clone(), handles.clone(), errors.clone());
                let op = *op;
                // proxies needed by this op are taken out of the table up front (cloned)
                let proxy_for_signals: Option<Proxy<'static>> = match op {
                    Op::Signals { proxy, .. } => match handles.lock().unwrap().get(&proxy) {
                        Some(Handle::Proxy(p)) => Some(p.clone()),
                        _ => None,
                    },
                    _ => None,
                };
                tasks.push(w.spawn("op", cancel_after(w, cancel_at, async move {
                    let r: zbus::Result<()> = async {
                        match op {
                            Op::Stream { id, rule } => {
                                let s = MessageStream::for_match_rule(stream_rule(rule), &conn, None).await?;
                                handles.lock().unwrap().insert(id, Handle::Stream(s));
                            }
                            Op::Proxy { id, dest } => {
                                let px: Proxy<'static> = zbus::proxy::Builder::new(&conn)
                                    .destination(DESTS[dest as usize])?
                                    .path("/c37")?
                                    .interface("org.c37.I")?
                                    .cache_properties(zbus::proxy::CacheProperties::No)
                                    .build()
                                    .await?;
                                handles.lock().unwrap().insert(id, Handle::Proxy(px));
                            }
                            Op::Signals { id, member, .. } => {
                                if let Some(px) = proxy_for_signals {
                                    let s = match member {
                                        Some(m) => px.receive_signal(MEMBERS[m as usize]).await?,
                                        None => px.receive_all_signals().await?,
                                    };
                                    handles.lock().unwrap().insert(id, Handle::Signals(s));
                                }
                            }
                            Op::RefuseNextAdd => {}
                            Op::Drop { id, asynchronous } => {
                                let h = handles.lock().unwrap().remove(&id);
                                match (h, asynchronous) {
                                    (Some(Handle::Stream(s)), true) => s.async_drop().await,
                                    (Some(Handle::Signals(s)), true) => s.async_drop().await,
                                    (h, _) => drop(h),
                                }
                            }
                        }
                        Ok(())
                    }
                    .await;
                    if let Err(e) = r {
                        errors.lock().unwrap().push(format!("{op:?}: {e}"));
                    }
                })));
            }
            w.run();
            drop(tasks);
            // an operation may fail only if the bus refused one of its AddMatch calls
            let refused_now = bus.lock().unwrap().refused.len() - refused_before;
            if refused_now > 0 {
                refused_seen = true;
            }
            if errors.lock().unwrap().len() > refused_now {
                verdict = Some(Verdict::fail("op", "operation-failed", format!("batch {bi}: {:?} (the bus refused {refused_now} AddMatch calls)", errors.lock().unwrap())));
                break;
            }
            // update the model
            let before = model.clone();
            for op in batch {
                // a cancelled creation may or may not have produced its handle
                if let Op::Stream { id, .. } | Op::Proxy { id, .. } | Op::Signals { id, .. } = op {
                    if !handles.lock().unwrap().contains_key(id) {
                        // a cancelled signal-stream creation may have left the proxy subscribed to its
                        // destination's owner changes (that subscription belongs to the proxy)
                        if let Op::Signals { proxy, .. } = op {
                            if let Some(Model::Proxy { dest, subscribed: false }) = model.get(proxy).cloned() {
                                maybe_subscribed.insert(*proxy, dest);
                            }
                        }
                        continue;
                    }
                }
                match *op {
                    Op::Stream { id, rule } => {
                        model.insert(id, Model::Stream(rule));
                    }
                    Op::Proxy { id, dest } => {
                        model.insert(id, Model::Proxy { dest, subscribed: false });
                    }
                    Op::Signals { id, proxy, member } => {
                        if let Some(Model::Proxy { dest, .. }) = model.get(&proxy).cloned() {
                            model.insert(proxy, Model::Proxy { dest, subscribed: true });
                            model.insert(id, Model::Signals { proxy, dest, member });
                        }
                    }
                    Op::Drop { id, .. } => {
                        model.remove(&id);
                    }
                    Op::RefuseNextAdd => {}
                }
            }
            // shared rules?
            let mut count: BTreeMap<String, usize> = BTreeMap::new();
            for (id, m) in &model {
                let mut one = BTreeMap::new();
                one.insert(*id, m.clone());
                for r in expected_rules(&one) {
                    *count.entry(r).or_insert(0) += 1;
                }
            }
            if count.values().any(|c| *c >= 2) {
                nontrivial = true;
            }
            let _ = before;
            let want = expected_rules(&model);
            let b = bus.lock().unwrap();
            if let Some(r) = b.dup_adds.first() {
                verdict = Some(Verdict::fail("balance", if cancelled_seen { "after-cancelled-operation-added-twice" } else { "added-twice" }, format!("batch {bi}: AddMatch for a rule that was already registered: {r}")));
                break;
            }
            if let Some(r) = b.bad_removes.first() {
                verdict = Some(Verdict::fail("balance", if cancelled_seen { "after-cancelled-operation-removed-unregistered" } else { "removed-unregistered" }, format!("batch {bi}: RemoveMatch for a rule that is not registered: {r}")));
                break;
            }
            let live: BTreeSet<String> = b.live_rules.iter().cloned().collect();
            let mut want_alt = want.clone();
            for (px, dest) in &maybe_subscribed {
                if model.contains_key(px) && is_well_known(*dest) {
                    want_alt.insert(noc_rule(DESTS[*dest as usize]));
                }
            }
            // every "maybe" is independent: the bus must hold everything needed and nothing beyond the maybes
            if !(want.is_subset(&live) && live.is_subset(&want_alt)) || b.live_rules.len() != live.len() {
                let missing: Vec<&String> = want.difference(&live).collect();
                let extra: Vec<&String> = live.difference(&want).collect();
                let disc = if !missing.is_empty() { "rule-missing-on-bus" } else { "rule-leaked-on-bus" };
                let disc = if cancelled_seen { format!("after-cancelled-operation-{disc}") } else if refused_seen { format!("after-refused-add-match-{disc}") } else { disc.to_string() };
                verdict = Some(Verdict::fail(
                    "balance",
                    disc,
                    format!("after batch {bi} {batch:?}: registered on the bus but not needed {extra:?}; needed but not registered {missing:?}; live handles {model:?}"),
                ));
                break;
            }
        }
        handles.lock().unwrap().clear();
        drop(conn);
        drop(bus_task);
        raw.tx.drop_wakers();
        raw.rx.drop_wakers();
        if nontrivial {
            w.count("probe.rule_shared_by_two_subscribers");
        }
        verdict.unwrap_or_else(|| Verdict::ok(nontrivial))
    }
}
