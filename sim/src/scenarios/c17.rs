//! C17 — the client-side handshake succeeds only on a proper server acceptance.
use std::os::fd::AsFd;

use futures_lite::StreamExt;
use serde::{Deserialize, Serialize};
use serde_json::Value;
use zbus::{connection::socket::BoxedSplit, MessageStream};

use super::common::*;
use crate::{
    framework::{Scenario, Tier, Verdict},
    kernel::{SchedCfg, World},
    net::{fd_tag, make_fd, sim_pair, LinkCfg, SockCfg},
    peers::{PeerReader, GUID},
    rng::Rng,
    wire::{RawMsg, Val, F_UNIX_FDS},
};

pub struct C17Scn;
pub static C17: C17Scn = C17Scn;

const OTHER_GUID: &str = "fedcba9876543210fedcba9876543210";

/// Server reply alphabet.
pub const REPLIES: &[&str] = &[
    "OK 0123456789abcdef0123456789abcdef",
    "OK fedcba9876543210fedcba9876543210",
    "OK",
    "OK 0123456789abcdef",
    "OK 0123456789abcdef0123456789abcdef0",
    "OK 0123456789abcdefghijklmnopqrstuv",
    "OK 01234567-89ab-cdef-0123-456789abcdef",
    "OK {0123456789abcdef0123456789abcdef}",
    "REJECTED EXTERNAL",
    "REJECTED",
    "ERROR",
    "ERROR go away",
    "DATA",
    "DATA 00",
    "AGREE_UNIX_FD",
    "WHATEVER",
    "",
    "BEGIN",
];

#[derive(Clone, Copy, Debug, Serialize, Deserialize, PartialEq)]
enum Expect {
    None,
    Same,
    Different,
}

#[derive(Clone, Debug, Serialize, Deserialize, PartialEq)]
struct P {
    replies: Vec<u8>,
    /// write everything up front instead of answering each client line
    eager: bool,
    /// bare `\n` ending on this reply index
    lf_only_at: Option<u8>,
    can_fd: bool,
    anonymous: bool,
    expect: Expect,
    flatpak: bool,
    /// trailing messages: (body length, number of fds)
    trailing: Vec<(u16, u8)>,
    link: LinkCfg,
}

fn trailing_msg(i: usize, len: u16, nfds: u8) -> (Vec<u8>, Vec<u64>) {
    let data: Vec<Val> = (0..len).map(|k| Val::Byte((k as u8) ^ 0x5a)).collect();
    let mut m = RawMsg::signal(50 + i as u32, "/c17", "org.c17.I", &format!("T{i}")).body(&[Val::Array("y".into(), data)]);
    if nfds > 0 {
        m = m.with(F_UNIX_FDS, Val::U32(nfds as u32));
    }
    (m.encode(), (0..nfds as u64).map(|k| 0xC17_000 + i as u64 * 8 + k).collect())
}

fn valid_guid(s: &str) -> bool {
    s.len() == 32 && s.bytes().all(|b| b.is_ascii_hexdigit())
}

#[derive(Debug, Default)]
struct Outcome {
    done: bool,
    ok: bool,
    err: String,
    guid: String,
    cap_fd: Option<bool>,
    leftover_bytes: Vec<u8>,
    leftover_fds: usize,
    stream_msgs: Vec<(Vec<u8>, Vec<u64>)>,
    stream_err: bool,
}

impl Scenario for C17Scn {
    fn id(&self) -> &'static str {
        "C17"
    }
    fn rule(&self) -> &'static str {
        "plan = 1..3 server reply lines over an 18-symbol alphabet (OK with valid / other / missing / short / long / non-hex / hyphenated / braced GUID, REJECTED, ERROR, DATA, AGREE_UNIX_FD, unknown, empty, BEGIN) x eager or line-by-line server x bare-LF fault x fd-capable socket or not x EXTERNAL/ANONYMOUS x expected GUID none/equal/different (the latter two through the zbus_verif client_handshake hook, none through the public Builder) x FLATPAK_ID (non-pipelined negotiation) x 0..2 trailing messages with fds x read splits; thorough also enumerates every reply sequence of <= 2 lines; oracle = reference client; non-trivial = a reply line was split across reads or trailing bytes were sent together with the last reply"
    }
    fn runs(&self, tier: Tier) -> u64 {
        match tier {
            Tier::Quick => 30_000,
            Tier::Thorough => 1_000_000,
        }
    }
    fn real(&self) -> Vec<&'static str> {
        vec!["handshake::Client", "handshake::Common", "Command parser", "Guid validation", "connection builder + socket reader + MessageStream (expected GUID = none)", "Connection::send fd capability check"]
    }
    fn stubbed(&self) -> Vec<&'static str> {
        vec!["OS socket (SimSocket)", "executor", "clock", "server (scripted raw bytes)", "FLATPAK_ID environment variable (set per run)"]
    }
    fn extra_env(&self, body: &Value) -> Vec<(String, Option<String>)> {
        let p: P = unj(body);
        vec![("FLATPAK_ID".into(), if p.flatpak { Some("org.sim.App".into()) } else { None })]
    }

    fn generate(&self, rng: &mut Rng, idx: u64, tier: Tier) -> (SchedCfg, Value) {
        let n = REPLIES.len() as u64;
        let enumerated = (n + n * n) * 2 * 3;
        let mut p = P {
            replies: vec![],
            eager: rng.chance(1, 2),
            lf_only_at: if rng.chance(1, 25) { Some(rng.below(3) as u8) } else { None },
            can_fd: rng.chance(2, 3),
            anonymous: rng.chance(1, 4),
            expect: *rng.pick(&[Expect::None, Expect::None, Expect::Same, Expect::Different]),
            flatpak: rng.chance(1, 4),
            trailing: vec![],
            link: gen_read_cfg(rng),
        };
        for i in 0..rng.range(0, 2) {
            let _ = i;
            p.trailing.push((rng.range(0, 300) as u16, if p.can_fd && rng.chance(1, 3) { rng.range(1, 2) as u8 } else { 0 }));
        }
        if tier == Tier::Thorough && idx < enumerated {
            let mut k = idx;
            p.can_fd = k % 2 == 0;
            k /= 2;
            p.expect = [Expect::None, Expect::Same, Expect::Different][(k % 3) as usize];
            k /= 3;
            p.replies = if k < n { vec![k as u8] } else { vec![((k - n) / n) as u8, ((k - n) % n) as u8] };
            p.lf_only_at = None;
        } else {
            let len = rng.range(1, 3);
            for i in 0..len {
                let plausible: &[u8] = if i == 0 { &[0, 0, 0, 1, 8, 10] } else { &[14, 14, 11, 0] };
                p.replies.push(if rng.chance(3, 5) { *rng.pick(plausible) } else { rng.below(n) as u8 });
            }
        }
        (SchedCfg::generate(rng, &[]), j(&p))
    }

    fn shrink(&self, body: &Value) -> Vec<Value> {
        let p: P = unj(body);
        let mut out = vec![];
        for r in drop_candidates(&p.replies) {
            if !r.is_empty() {
                let mut q = p.clone();
                q.replies = r;
                out.push(j(&q));
            }
        }
        for t in drop_candidates(&p.trailing) {
            let mut q = p.clone();
            q.trailing = t;
            out.push(j(&q));
        }
        for f in [
            |q: &mut P| q.link = LinkCfg::default(),
            |q: &mut P| q.flatpak = false,
            |q: &mut P| q.lf_only_at = None,
            |q: &mut P| q.eager = true,
            |q: &mut P| q.anonymous = false,
            |q: &mut P| q.trailing.iter_mut().for_each(|t| *t = (0, t.1)),
        ] {
            let mut q = p.clone();
            f(&mut q);
            if q != p {
                out.push(j(&q));
            }
        }
        out
    }

    fn run(&self, w: &World, body: &Value) -> Verdict {
        let p: P = unj(body);
        let sock_cfg = SockCfg { can_pass_fd: p.can_fd, uid: Some(0), mech_anonymous: p.anonymous };
        let (sock, raw) = sim_pair(w, p.link.clone(), LinkCfg::default(), sock_cfg);
        let out = shared(Outcome::default());

        let trailing: Vec<(Vec<u8>, Vec<u64>)> = p.trailing.iter().enumerate().map(|(i, (l, f))| trailing_msg(i, *l, *f)).collect();

        // ---- real client ----
        let o2 = out.clone();
        let expect = p.expect;
        let ww = w.clone();
        let client = w.spawn("client", async move {
            match expect {
                Expect::None => match build_client(sock).await {
                    Err(e) => {
                        let mut o = o2.lock().unwrap();
                        o.done = true;
                        o.err = e.to_string();
                    }
                    Ok(conn) => {
                        let mut s = MessageStream::from(&conn);
                        // fd capability through the public API
                        let fd = zvariant::Fd::from(make_fd(1));
                        let probe = zbus::Message::signal("/p", "org.c17.P", "Probe").unwrap().build(&fd).unwrap();
                        let cap = match conn.send(&probe).await {
                            Err(zbus::Error::Unsupported) => Some(false),
                            Ok(()) => Some(true),
                            Err(_) => None,
                        };
                        {
                            let mut o = o2.lock().unwrap();
                            o.done = true;
                            o.ok = true;
                            o.guid = conn.server_guid().to_string();
                            o.cap_fd = cap;
                        }
                        while let Some(item) = s.next().await {
                            let mut o = o2.lock().unwrap();
                            match item {
                                Ok(m) => {
                                    let fds = m.data().fds().iter().map(|f| fd_tag(f.as_fd())).collect();
                                    o.stream_msgs.push((m.data().bytes().to_vec(), fds));
                                }
                                Err(_) => o.stream_err = true,
                            }
                        }
                    }
                },
                Expect::Same | Expect::Different => {
                    let g = if expect == Expect::Same { GUID } else { OTHER_GUID };
                    let guid: zbus::OwnedGuid = zbus::Guid::try_from(g).unwrap().to_owned().into();
                    let split: BoxedSplit = sock.into();
                    let r = zbus::verif::client_handshake(split, Some(guid), None, false).await;
                    let mut o = o2.lock().unwrap();
                    o.done = true;
                    match r {
                        Err(e) => o.err = e.to_string(),
                        Ok(h) => {
                            o.ok = true;
                            o.guid = h.server_guid.to_string();
                            o.cap_fd = Some(h.cap_unix_fd);
                            o.leftover_bytes = h.already_received_bytes;
                            o.leftover_fds = h.already_received_fds.len();
                        }
                    }
                    drop(o);
                    ww.count("probe.hook_client_handshake");
                }
            }
        });

        // ---- scripted server ----
        let p2 = p.clone();
        let raw2 = raw.clone();
        let tr2 = trailing.clone();
        let consumed_lines = shared(Vec::<String>::new());
        let cl2 = consumed_lines.clone();
        let server = w.spawn("server", async move {
            let line = |i: usize| -> Vec<u8> {
                let mut b = REPLIES[p2.replies[i] as usize].as_bytes().to_vec();
                if p2.lf_only_at == Some(i as u8) {
                    b.push(b'\n');
                } else {
                    b.extend_from_slice(b"\r\n");
                }
                b
            };
            let send_trailing = |first_with: Vec<u8>| {
                let mut pending = first_with;
                // a conformant server only passes fds once it has agreed to
                let agreed = p2.can_fd && p2.replies.get(1).map(|r| REPLIES[*r as usize] == "AGREE_UNIX_FD").unwrap_or(false) && p2.lf_only_at != Some(1);
                for (b, tags) in &tr2 {
                    if agreed && !tags.is_empty() {
                        if !pending.is_empty() {
                            raw2.write(&pending);
                            pending.clear();
                        }
                        raw2.write_fds(b, tags.iter().map(|t| make_fd(*t)).collect());
                    } else {
                        pending.extend_from_slice(b);
                    }
                }
                if !pending.is_empty() {
                    raw2.write(&pending);
                }
            };
            if p2.eager {
                let mut all = vec![];
                for i in 0..p2.replies.len() {
                    all.extend(line(i));
                }
                send_trailing(all);
            }
            let mut r = PeerReader::new(raw2.clone());
            let mut next = 0;
            loop {
                let l = match r.line().await {
                    Ok(Some(l)) => l.trim_start_matches('\0').to_string(),
                    _ => break,
                };
                cl2.lock().unwrap().push(l.clone());
                if p2.eager {
                    continue;
                }
                if l.starts_with("AUTH") || l == "NEGOTIATE_UNIX_FD" {
                    if next < p2.replies.len() {
                        let mut b = line(next);
                        next += 1;
                        // the last reply carries everything that is left (further replies + trailing)
                        let last_expected = l == "NEGOTIATE_UNIX_FD" || !p2.can_fd;
                        if last_expected {
                            while next < p2.replies.len() {
                                b.extend(line(next));
                                next += 1;
                            }
                            send_trailing(b);
                        } else {
                            raw2.write(&b);
                        }
                    }
                }
            }
        });

        w.run();
        let o = std::mem::take(&mut *out.lock().unwrap());
        let client_lines = consumed_lines.lock().unwrap().clone();
        let reads = raw.tx.st.lock().unwrap().reads_after_bytes.clone();
        let unread = raw.tx.unread();
        drop(client);
        drop(server);
        raw.tx.drop_wakers();
        raw.rx.drop_wakers();

        if !o.done {
            // the client is still waiting for a reply that the script never sends: legitimate
            w.count("probe.client_left_waiting");
            return Verdict::ok(false);
        }

        // ---- reference client ----
        let texts: Vec<&str> = p.replies.iter().map(|r| REPLIES[*r as usize]).collect();
        let first = texts[0];
        let first_ok_guid: Option<&str> = {
            let w: Vec<&str> = first.split_ascii_whitespace().collect();
            if w.first() == Some(&"OK") && w.len() >= 2 && p.lf_only_at != Some(0) {
                Some(w[1])
            } else {
                None
            }
        };
        let expected_guid = match p.expect {
            Expect::None => None,
            Expect::Same => Some(GUID),
            Expect::Different => Some(OTHER_GUID),
        };
        let proper_first = first_ok_guid.map(|g| valid_guid(g) && expected_guid.map(|e| e == g).unwrap_or(true)).unwrap_or(false);
        if o.ok && !proper_first {
            let why = match first_ok_guid {
                None => "not-ok".to_string(),
                Some(g) if !valid_guid(g) => format!("invalid-guid-len{}", g.len()),
                Some(_) => "guid-mismatch".to_string(),
            };
            return Verdict::fail("accept", why, format!("client completed the handshake although the server's first reply was {first:?} (expected guid {expected_guid:?}); replies {texts:?}"));
        }
        // what the client must have asked for
        let negotiated = client_lines.iter().any(|l| l == "NEGOTIATE_UNIX_FD");
        if negotiated != p.can_fd && o.ok {
            return Verdict::fail("negotiate", "negotiation-vs-socket", format!("client lines {client_lines:?} but socket fd capability is {}", p.can_fd));
        }
        let n_expected = if p.can_fd { 2 } else { 1 };
        let second = texts.get(1).copied();
        let clean = p.lf_only_at.is_none();
        if o.ok {
            if o.guid != first_ok_guid.unwrap_or("") {
                return Verdict::fail("guid", "reported-guid", format!("connection reports guid {} but the server said {first:?}", o.guid));
            }
            // fd capability exactly when agreed
            let agreed = p.can_fd && second == Some("AGREE_UNIX_FD") && p.lf_only_at != Some(1);
            match o.cap_fd {
                Some(c) if c != agreed => {
                    return Verdict::fail("fdcap", if c { "enabled-without-agreement" } else { "disabled-despite-agreement" }, format!("fd passing enabled = {c}, server replies {texts:?}, socket can_fd = {}", p.can_fd));
                }
                _ => {}
            }
            if agreed {
                w.count("probe.fd_agreed");
            }
            // leftovers = everything after the consumed reply lines
            if clean && p.replies.len() == n_expected {
                let want_bytes: Vec<u8> = trailing.iter().flat_map(|(b, _)| b.iter().copied()).collect();
                match p.expect {
                    Expect::None => {
                        let probe_fds = |t: &Vec<u64>| if agreed { t.clone() } else { vec![] };
                        let want: Vec<(Vec<u8>, Vec<u64>)> = trailing.iter().map(|(b, t)| (b.clone(), probe_fds(t))).collect();
                        if o.stream_msgs != want {
                            return Verdict::fail(
                                "leftover",
                                "stream-differs",
                                format!("server sent {} trailing messages after the handshake lines, the stream yielded {} (err item: {}); fds want {:x?} got {:x?}", want.len(), o.stream_msgs.len(), o.stream_err, want.iter().map(|m| &m.1).collect::<Vec<_>>(), o.stream_msgs.iter().map(|m| &m.1).collect::<Vec<_>>()),
                            );
                        }
                    }
                    _ => {
                        let mut got = o.leftover_bytes.clone();
                        let rest = want_bytes.len().saturating_sub(got.len());
                        if unread != rest || got != want_bytes[..got.len().min(want_bytes.len())] {
                            return Verdict::fail("leftover", "bytes-differ", format!("handshake kept {} bytes, {} unread on the link, trailing is {} bytes", got.len(), unread, want_bytes.len()));
                        }
                        got.truncate(0);
                    }
                }
                if !trailing.is_empty() {
                    w.count("probe.trailing_delivered");
                }
            }
        } else {
            // must-succeed cases: a conformant exchange
            let conformant = clean
                && proper_first
                && p.replies.len() == n_expected
                && (n_expected == 1 || matches!(second, Some("AGREE_UNIX_FD") | Some("ERROR") | Some("ERROR go away")));
            if conformant {
                return Verdict::fail("liveness", "refused-conformant-server", format!("a conformant server {texts:?} was refused: {}", o.err));
            }
        }
        let total_lines_len: u64 = texts.iter().map(|t| t.len() as u64 + 2).sum();
        let mut off = 0u64;
        let mut split = false;
        for t in &texts {
            let e = off + t.len() as u64 + 2;
            if reads.iter().any(|r| *r > off && *r < e) {
                split = true;
            }
            off = e;
        }
        let glued = !trailing.is_empty() && reads.iter().any(|r| *r > total_lines_len) && !reads.contains(&total_lines_len);
        if split {
            w.count("probe.reply_split_across_reads");
        }
        if glued {
            w.count("probe.trailing_read_with_last_reply");
        }
        Verdict::ok(split || glued)
    }
}
