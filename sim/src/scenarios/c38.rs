//! C38 — transport failures end pending work with errors, never hangs (fault enumeration).
use event_listener::Event;
use futures_lite::StreamExt;
use serde::{Deserialize, Serialize};
use serde_json::Value;
use std::sync::Arc;
use zbus::{MatchRule, MessageStream};

use super::common::*;
use crate::{
    framework::{Scenario, Tier, Verdict},
    kernel::{SchedCfg, World},
    net::{sim_pair, Chunking, ErrKind, LinkCfg, SockCfg},
    peers::PeerReader,
    rng::Rng,
    wire::{RawMsg, Val, T_CALL},
};

pub struct C38Scn;
pub static C38: C38Scn = C38Scn;

#[derive(Clone, Copy, Debug, Serialize, Deserialize, PartialEq)]
enum Item {
    /// signal matching the rule stream (member `Hit`)
    Hit(u16),
    /// signal not matching it
    Noise(u16),
    /// a method call to the object server
    CallServer,
    /// reply to pending call A / B: true = method return, false = error
    ReplyA(bool),
    ReplyB(bool),
}

#[derive(Clone, Copy, Debug, Serialize, Deserialize, PartialEq)]
enum Fault {
    /// EOF at inbound offset; the whole socket is gone
    Eof(u64),
    /// EOF at inbound offset; the outbound half keeps working (peer half-close)
    EofHalf(u64),
    /// ECONNRESET at inbound offset; whole socket gone
    Reset(u64),
    /// EPIPE on the n-th write call; whole socket gone
    Write(u64),
    /// the application calls `Connection::close()` once the unfiltered stream has yielded n messages
    LocalClose(u8),
}

#[derive(Clone, Debug, Serialize, Deserialize, PartialEq)]
struct P {
    session: Vec<Item>,
    fault: Fault,
    chunk: Chunking,
    yield_io: bool,
    /// the rule stream's queue holds exactly the matching messages received completely before the failure and
    /// its consumer only starts polling 1 ms (simulated) later: the error finds the queue full
    #[serde(default)]
    lazy_hits: bool,
}

fn sessions() -> Vec<Vec<Item>> {
    use Item::*;
    vec![
        vec![Hit(0), CallServer, ReplyA(true), Noise(3), Hit(9), ReplyB(false), Hit(1)],
        vec![ReplyB(true), Hit(40), Hit(0), CallServer, Noise(0), ReplyA(false)],
    ]
}

/// The inbound script and the byte range of every item.
fn script(session: &[Item], serial_a: u32, serial_b: u32) -> (Vec<u8>, Vec<(u64, u64)>) {
    let mut out = vec![];
    let mut ranges = vec![];
    for (i, it) in session.iter().enumerate() {
        let ser = 500 + i as u32;
        let pad = |n: u16| Val::Array("y".into(), (0..n).map(|k| Val::Byte(k as u8)).collect());
        let m = match it {
            Item::Hit(n) => RawMsg::signal(ser, "/c38/peer", "org.c38.Sig", "Hit").body(&[Val::U32(i as u32), pad(*n)]),
            Item::Noise(n) => RawMsg::signal(ser, "/c38/peer", "org.c38.Sig", "Other").body(&[Val::U32(i as u32), pad(*n)]),
            Item::CallServer => RawMsg::call(ser, "/c38", Some("org.c38.I"), "Echo").body(&[Val::str("hello")]),
            Item::ReplyA(true) => RawMsg::ret(ser, serial_a).body(&[Val::U32(i as u32)]),
            Item::ReplyA(false) => RawMsg::error(ser, serial_a, "org.c38.Error.A").body(&[Val::str("a failed")]),
            Item::ReplyB(true) => RawMsg::ret(ser, serial_b).body(&[Val::U32(i as u32)]),
            Item::ReplyB(false) => RawMsg::error(ser, serial_b, "org.c38.Error.B").body(&[Val::str("b failed")]),
        };
        let s = out.len() as u64;
        out.extend(m.encode());
        ranges.push((s, out.len() as u64));
    }
    (out, ranges)
}

const SEEDS_PER_POINT: u64 = 4;
const WRITE_POINTS: u64 = 6;

fn points(session: &[Item]) -> u64 {
    let (b, _) = script(session, 1, 2);
    (b.len() as u64 + 1) * 3 + WRITE_POINTS + session.len() as u64 + 1
}

struct Echo;

#[zbus::interface(name = "org.c38.I")]
impl Echo {
    fn echo(&self, s: &str) -> String {
        s.to_string()
    }
}

#[derive(Clone, Debug, PartialEq)]
enum CallRes {
    Pending,
    Ok,
    MethodErr(String),
    Err(String),
}

#[derive(Default, Debug)]
struct Obs {
    all: Vec<Result<u32, String>>,
    all_ended: bool,
    hits: Vec<Result<u32, String>>,
    hits_ended: bool,
    a: Option<CallRes>,
    b: Option<CallRes>,
    late_call: Option<CallRes>,
    late_sub: Option<Result<(), String>>,
    setup_failed: Option<String>,
    serials: Option<(u32, u32)>,
    closed_by_app: bool,
}

fn call_res(r: zbus::Result<zbus::Message>) -> CallRes {
    match r {
        Ok(_) => CallRes::Ok,
        Err(zbus::Error::MethodError(n, _, _)) => CallRes::MethodErr(n.to_string()),
        Err(e) => CallRes::Err(e.to_string()),
    }
}

impl Scenario for C38Scn {
    fn id(&self) -> &'static str {
        "C38"
    }
    fn level(&self) -> &'static str {
        "fault_enumeration"
    }
    fn rule(&self) -> &'static str {
        "scripted sessions (two pending calls, an unfiltered and a rule stream, an object server, then one more call and one more subscription after the failure); fault = {EOF with the whole socket gone, EOF on the inbound half only, ECONNRESET} at EVERY inbound byte offset 0..=len of the session plus EPIPE at each of the first 6 write calls, plus Connection::close() called by the application once the unfiltered stream has yielded n = 0..=len(session) messages, each under several seeded schedules / read-split profiles, a quarter of them with a rule stream whose queue is exactly as large as its backlog at the failure and whose consumer starts polling late (the error finds the queue full); quick enumerates the two fixed sessions completely, thorough adds seeded random sessions; every case with a fault inside the session is non-trivial; distinct = distinct (session, fault point, schedule) triples"
    }
    fn runs(&self, tier: Tier) -> u64 {
        let fixed: u64 = sessions().iter().map(|s| points(s) * SEEDS_PER_POINT).sum();
        match tier {
            Tier::Quick => fixed,
            Tier::Thorough => fixed * 4 + 600_000,
        }
    }
    fn real(&self) -> Vec<&'static str> {
        vec!["socket reader error path (broadcast error, clear senders)", "PendingMethodCall termination", "MessageStream termination", "Connection::add_match on a dead connection", "object server dispatch + reply on a dying link", "Connection::send error path"]
    }
    fn stubbed(&self) -> Vec<&'static str> {
        vec!["OS socket (SimSocket with EOF / ECONNRESET at byte offsets, EPIPE at write calls)", "executor", "clock", "peer (scripted)"]
    }

    fn generate(&self, rng: &mut Rng, idx: u64, tier: Tier) -> (SchedCfg, Value) {
        let fixed = sessions();
        let mut k = idx;
        let mut chosen: Option<(Vec<Item>, u64)> = None;
        let reps = if tier == Tier::Quick { 1 } else { 4 };
        'outer: for _ in 0..reps {
            for s in &fixed {
                let n = points(s) * SEEDS_PER_POINT;
                if k < n {
                    chosen = Some((s.clone(), k / SEEDS_PER_POINT));
                    break 'outer;
                }
                k -= n;
            }
        }
        let (session, point) = match chosen {
            Some(x) => x,
            None => {
                // seeded random session, random point
                let n = rng.range(2, 8);
                let mut s = vec![];
                let (mut a_done, mut b_done) = (false, false);
                for _ in 0..n {
                    s.push(match rng.below(6) {
                        0 | 1 => Item::Hit(rng.range(0, 60) as u16),
                        2 => Item::Noise(rng.range(0, 60) as u16),
                        3 => Item::CallServer,
                        4 if !a_done => {
                            a_done = true;
                            Item::ReplyA(rng.chance(1, 2))
                        }
                        5 if !b_done => {
                            b_done = true;
                            Item::ReplyB(rng.chance(1, 2))
                        }
                        _ => Item::Hit(0),
                    });
                }
                let pts = points(&s);
                (s, rng.below(pts))
            }
        };
        let len = script(&session, 1, 2).0.len() as u64;
        let fault = if point < (len + 1) * 3 {
            let off = point / 3;
            match point % 3 {
                0 => Fault::Eof(off),
                1 => Fault::EofHalf(off),
                _ => Fault::Reset(off),
            }
        } else if point < (len + 1) * 3 + WRITE_POINTS {
            Fault::Write(point - (len + 1) * 3)
        } else {
            Fault::LocalClose((point - (len + 1) * 3 - WRITE_POINTS) as u8)
        };
        let chunk = match rng.below(4) {
            0 => Chunking::Whole,
            1 => Chunking::OneByte,
            _ => Chunking::Random,
        };
        let sched = SchedCfg::generate(rng, &["socket reader", "consumer", "caller"]);
        (sched, j(&P { session, fault, chunk, yield_io: rng.chance(1, 2), lazy_hits: rng.chance(1, 4) }))
    }

    fn shrink(&self, body: &Value) -> Vec<Value> {
        let p: P = unj(body);
        let mut out = vec![];
        if p.chunk != Chunking::Whole || p.yield_io {
            let mut q = p.clone();
            q.chunk = Chunking::Whole;
            q.yield_io = false;
            out.push(j(&q));
        }
        if p.lazy_hits {
            let mut q = p.clone();
            q.lazy_hits = false;
            out.push(j(&q));
        }
        out
    }

    fn run(&self, w: &World, body: &Value) -> Verdict {
        let p: P = unj(body);
        let mut lin = LinkCfg { read_chunking: p.chunk, yield_after_io: p.yield_io, ..LinkCfg::default() };
        let mut lout = LinkCfg { yield_after_io: p.yield_io, ..LinkCfg::default() };
        match p.fault {
            Fault::Eof(o) => {
                lin.eof_at = Some(o);
                lin.fault_kills_both = true;
            }
            Fault::EofHalf(o) => lin.eof_at = Some(o),
            Fault::Reset(o) => {
                lin.err_at = Some((o, ErrKind::Reset));
                lin.fault_kills_both = true;
            }
            Fault::Write(n) => {
                lout.fail_write_call = Some((n, ErrKind::Pipe));
                lout.fault_kills_both = true;
            }
            Fault::LocalClose(_) => {}
        }
        let (sock, raw) = sim_pair(w, lin, lout, SockCfg::default());
        let obs = shared(Obs::default());

        // ---- app ----
        // capacity of the lazy rule stream: the matching messages completely received before the failure
        let hits_cap: Option<usize> = if p.lazy_hits {
            let (bytes, ranges) = script(&p.session, 1, 2);
            let cut = match p.fault {
                Fault::Eof(o) | Fault::EofHalf(o) | Fault::Reset(o) => o.min(bytes.len() as u64),
                _ => bytes.len() as u64,
            };
            Some((0..p.session.len()).filter(|i| matches!(p.session[*i], Item::Hit(_)) && ranges[*i].1 <= cut).count().max(1))
        } else {
            None
        };
        let o = obs.clone();
        let ww = w.clone();
        let p_fault = p.fault;
        let app = w.spawn("app", async move {
            let conn = match zbus::connection::Builder::authenticated_socket(sock, crate::peers::GUID)
                .unwrap()
                .p2p()
                .internal_executor(false)
                .serve_at("/c38", Echo)
                .unwrap()
                .build()
                .await
            {
                Ok(c) => c,
                Err(e) => {
                    o.lock().unwrap().setup_failed = Some(e.to_string());
                    return vec![];
                }
            };
            let all = MessageStream::from(&conn);
            let rule = MatchRule::builder().msg_type(zbus::message::Type::Signal).interface("org.c38.Sig").unwrap().member("Hit").unwrap().build();
            let hits = match MessageStream::for_match_rule(rule.clone(), &conn, hits_cap).await {
                Ok(s) => s,
                Err(e) => {
                    o.lock().unwrap().setup_failed = Some(e.to_string());
                    return vec![];
                }
            };
            let ended = Arc::new(Event::new());
            let progress = Arc::new(Event::new());
            let mut tasks = vec![];
            if let Fault::LocalClose(n) = p_fault {
                let (conn, o, progress) = (conn.clone(), o.clone(), progress.clone());
                tasks.push(ww.spawn("closer", async move {
                    loop {
                        let l = progress.listen();
                        if o.lock().unwrap().all.len() >= n as usize {
                            break;
                        }
                        l.await;
                    }
                    o.lock().unwrap().closed_by_app = true;
                    let _ = conn.close().await;
                }));
            }
            // consumers
            for (name, mut stream, which) in [("consumer-all", all, 0u8), ("consumer-hits", hits, 1u8)] {
                let o = o.clone();
                let ended = ended.clone();
                let progress = progress.clone();
                let w5 = ww.clone();
                let lazy = which == 1 && hits_cap.is_some();
                tasks.push(ww.spawn(name, async move {
                    if lazy {
                        w5.sleep_ns(1_000_000).await;
                    }
                    while let Some(item) = stream.next().await {
                        let rec = match item {
                            Ok(m) => {
                                let first: Result<u32, String> = match m.body().deserialize::<zbus::zvariant::Structure<'_>>() {
                                    Ok(s) => match s.fields().first() {
                                        Some(zbus::zvariant::Value::U32(v)) => Ok(*v),
                                        _ => Ok(u32::MAX),
                                    },
                                    Err(_) => Ok(u32::MAX),
                                };
                                first
                            }
                            Err(e) => Err(e.to_string()),
                        };
                        let mut g = o.lock().unwrap();
                        if which == 0 {
                            g.all.push(rec);
                            drop(g);
                            progress.notify(usize::MAX);
                        } else {
                            g.hits.push(rec)
                        }
                    }
                    let mut g = o.lock().unwrap();
                    if which == 0 {
                        g.all_ended = true;
                        drop(g);
                        ended.notify(usize::MAX);
                    } else {
                        g.hits_ended = true;
                    }
                }));
            }
            // pending calls
            for (name, member) in [("caller-a", "A"), ("caller-b", "B")] {
                let conn = conn.clone();
                let o = o.clone();
                tasks.push(ww.spawn(name, async move {
                    let r = call_res(conn.call_method(None::<&str>, "/c38/peer", Some("org.c38.Peer"), member, &()).await);
                    let mut g = o.lock().unwrap();
                    if member == "A" {
                        g.a = Some(r)
                    } else {
                        g.b = Some(r)
                    }
                }));
            }
            // after the failure
            {
                let conn = conn.clone();
                let o = o.clone();
                let ended = ended.clone();
                tasks.push(ww.spawn("late", async move {
                    loop {
                        let l = ended.listen();
                        if o.lock().unwrap().all_ended {
                            break;
                        }
                        l.await;
                    }
                    o.lock().unwrap().late_call = Some(CallRes::Pending);
                    let r = call_res(conn.call_method(None::<&str>, "/c38/peer", Some("org.c38.Peer"), "Late", &()).await);
                    o.lock().unwrap().late_call = Some(r);
                    o.lock().unwrap().late_sub = Some(Err("pending".into()));
                    let rule = MatchRule::builder().msg_type(zbus::message::Type::Signal).member("LateRule").unwrap().build();
                    let r = MessageStream::for_match_rule(rule, &conn, None).await;
                    o.lock().unwrap().late_sub = Some(match r {
                        Ok(_) => Ok(()),
                        Err(e) => Err(e.to_string()),
                    });
                }));
            }
            drop(conn);
            tasks
        });

        // ---- peer: learn the serials of A and B, then play the script in one write ----
        let p2 = p.clone();
        let raw2 = raw.clone();
        let o2 = obs.clone();
        let peer = w.spawn("peer", async move {
            let mut r = PeerReader::new(raw2.clone());
            let (mut sa, mut sb) = (None, None);
            while sa.is_none() || sb.is_none() {
                match r.msg().await {
                    Ok(Some(m)) if m.mtype == T_CALL => match m.member() {
                        Some("A") => sa = Some(m.serial),
                        Some("B") => sb = Some(m.serial),
                        _ => {}
                    },
                    Ok(Some(_)) => {}
                    _ => return,
                }
            }
            o2.lock().unwrap().serials = Some((sa.unwrap(), sb.unwrap()));
            let (bytes, _) = script(&p2.session, sa.unwrap(), sb.unwrap());
            raw2.write(&bytes);
            loop {
                match r.msg().await {
                    Ok(Some(_)) => {}
                    _ => break,
                }
            }
        });

        w.run();

        let g = std::mem::take(&mut *obs.lock().unwrap());
        let read_total = raw.tx.st.lock().unwrap().total_read;
        let write_calls = raw.rx.st.lock().unwrap().write_calls;
        drop(app);
        drop(peer);
        raw.tx.drop_wakers();
        raw.rx.drop_wakers();
        if let Some(e) = g.setup_failed {
            // a write fault can legitimately hit during setup
            if matches!(p.fault, Fault::Write(_) | Fault::LocalClose(_) | Fault::Eof(0) | Fault::EofHalf(0) | Fault::Reset(0)) {
                return Verdict::ok(false);
            }
            return Verdict::harness(format!("setup failed: {e}"));
        }

        let (bytes, ranges) = script(&p.session, 1, 2);
        let len = bytes.len() as u64;
        // which fault actually fired, and which items were completely received before it
        let (fired, cut): (bool, Option<u64>) = match p.fault {
            Fault::Eof(o) | Fault::EofHalf(o) | Fault::Reset(o) => (g.serials.is_some() && read_total >= o.min(len) && o <= len, Some(o)),
            Fault::Write(n) => (write_calls > n, None),
            Fault::LocalClose(_) => (g.closed_by_app, None),
        };
        // read faults placed at offset 0 fire even before the script is played
        let fired = fired || matches!(p.fault, Fault::Eof(0) | Fault::EofHalf(0) | Fault::Reset(0));
        if !fired {
            // control run: nothing failed, so everything must simply have been delivered
            let want_all = p.session.len();
            if g.all.len() != want_all || g.all.iter().any(|r| r.is_err()) {
                return Verdict::fail("control", "no-fault-but-stream-differs", format!("no fault fired, yet the unfiltered stream has {} items (want {want_all}): {:?}", g.all.len(), g.all));
            }
            return Verdict::ok(false);
        }
        let complete = |i: usize| cut.map(|c| ranges[i].1 <= c);
        // ---- streams ----
        let judge_stream = |name: &str, got: &Vec<Result<u32, String>>, ended: bool, want: Vec<u32>| -> Option<Verdict> {
            if !ended {
                return Some(Verdict::fail("stream", format!("{name}-never-ended"), format!("the {name} stream did not end after the transport failed ({:?}); items {got:?}", p.fault)));
            }
            let n_err = got.iter().filter(|r| r.is_err()).count();
            if n_err > 1 || (n_err == 1 && !got.last().unwrap().is_err()) {
                return Some(Verdict::fail("stream", format!("{name}-error-not-last"), format!("{name}: {got:?}")));
            }
            let vals: Vec<u32> = got.iter().filter_map(|r| r.as_ref().ok().copied()).collect();
            match cut {
                Some(_) => {
                    if vals != want {
                        return Some(Verdict::fail(
                            "stream",
                            format!("{name}-{}", if vals.len() < want.len() { "lost-complete-message" } else { "extra-message" }),
                            format!("{name} yielded items {vals:?}, completely received before the failure: {want:?} (fault {:?})", p.fault),
                        ));
                    }
                }
                None => {
                    if !want.starts_with(&vals) {
                        return Some(Verdict::fail("stream", format!("{name}-not-a-prefix"), format!("{name} yielded {vals:?}, session order is {want:?}")));
                    }
                }
            }
            None
        };
        let item_tag = |i: usize| -> u32 {
            match p.session[i] {
                Item::Hit(_) | Item::Noise(_) | Item::ReplyA(true) | Item::ReplyB(true) => i as u32,
                _ => u32::MAX,
            }
        };
        let want_all: Vec<u32> = (0..p.session.len()).filter(|i| complete(*i).unwrap_or(true)).map(item_tag).collect();
        let want_hits: Vec<u32> =
            (0..p.session.len()).filter(|i| matches!(p.session[*i], Item::Hit(_)) && complete(*i).unwrap_or(true)).map(|i| i as u32).collect();
        if let Some(v) = judge_stream("unfiltered", &g.all, g.all_ended, want_all) {
            return v;
        }
        if let Some(v) = judge_stream("rule", &g.hits, g.hits_ended, want_hits) {
            return v;
        }
        // ---- pending calls ----
        for (name, res, ok_item, err_item) in [("A", &g.a, Item::ReplyA(true), Item::ReplyA(false)), ("B", &g.b, Item::ReplyB(true), Item::ReplyB(false))] {
            let pos = p.session.iter().position(|i| *i == ok_item || *i == err_item);
            let replied_before = pos.map(|i| (complete(i), p.session[i] == ok_item));
            match (res, replied_before) {
                (None, _) | (Some(CallRes::Pending), _) => {
                    return Verdict::fail("call", format!("call-{name}-pending"), format!("pending call {name} never completed after {:?}", p.fault));
                }
                (Some(CallRes::Ok), Some((Some(true), true))) | (Some(CallRes::MethodErr(_)), Some((Some(true), false))) => {}
                (Some(CallRes::Err(_)), Some((Some(false), _))) | (Some(CallRes::Err(_)), None) => {}
                // write faults: either outcome is possible for a reply that was sent
                (Some(CallRes::Ok), Some((None, true))) | (Some(CallRes::MethodErr(_)), Some((None, false))) | (Some(CallRes::Err(_)), Some((None, _))) => {}
                (Some(r), exp) => {
                    return Verdict::fail(
                        "call",
                        format!("call-{name}-{}", match r {
                            CallRes::Ok => "ok-without-reply",
                            CallRes::MethodErr(_) => "method-error-without-reply",
                            _ => "error-despite-complete-reply",
                        }),
                        format!("call {name} completed with {r:?}; its reply relative to the failure: {exp:?} (fault {:?})", p.fault),
                    );
                }
            }
        }
        // ---- afterwards ----
        match &g.late_call {
            Some(CallRes::Err(_)) => {}
            other => return Verdict::fail("late", "late-call-not-failed", format!("a call made after the failure ended with {other:?}")),
        }
        match &g.late_sub {
            Some(Err(e)) if e != "pending" => {}
            other => return Verdict::fail("late", "late-subscription-not-failed", format!("a subscription made after the failure ended with {other:?}")),
        }
        w.count("probe.fault_inside_session");
        Verdict::ok(true)
    }
}
