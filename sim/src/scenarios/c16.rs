//! C16 — the server-side SASL handshake authenticates exactly the right peers.
use futures_lite::StreamExt;
use serde::{Deserialize, Serialize};
use serde_json::Value;
use zbus::{connection::Builder, MessageStream};

use super::common::*;
use crate::{
    framework::{Scenario, Tier, Verdict},
    kernel::{SchedCfg, World},
    net::{sim_pair, LinkCfg, SockCfg},
    peers::{hex, GUID},
    rng::Rng,
    wire::{RawMsg, Val},
};

pub struct C16Scn;
pub static C16: C16Scn = C16Scn;

const UID: u32 = 4242;
const OTHER_UID: u32 = 777;

/// The client-line alphabet.  `{U}`/`{O}` are replaced by hex of the peer's / another uid.
pub const ALPHABET: &[&str] = &[
    "AUTH",
    "AUTH EXTERNAL",
    "AUTH EXTERNAL {U}",
    "AUTH EXTERNAL {O}",
    "AUTH EXTERNAL 616263",
    "AUTH EXTERNAL zz",
    "AUTH ANONYMOUS",
    "AUTH ANONYMOUS 7a627573",
    "AUTH DBUS_COOKIE_SHA1 726f6f74",
    "DATA",
    "DATA {U}",
    "DATA {O}",
    "BEGIN",
    "CANCEL",
    "ERROR",
    "ERROR not today",
    "NEGOTIATE_UNIX_FD",
    "FOOBAR baz",
    "",
    "REJECTED EXTERNAL",
    "AGREE_UNIX_FD",
    "OK 0123456789abcdef0123456789abcdef",
];

#[derive(Clone, Copy, Debug, Serialize, Deserialize, PartialEq)]
enum Ending {
    CrLf,
    /// `\n` only
    Lf,
    /// `\r` only, glued to the next line
    Cr,
}

#[derive(Clone, Debug, Serialize, Deserialize, PartialEq)]
struct Line {
    sym: u8,
    ending: Ending,
}

#[derive(Clone, Debug, Serialize, Deserialize, PartialEq)]
struct P {
    uid_known: bool,
    anonymous: bool,
    /// mechanism given to the builder explicitly (otherwise the socket's default is used)
    explicit_mech: bool,
    can_fd: bool,
    leading_nul: bool,
    /// a stray `\n` before everything else
    leading_lf: bool,
    lines: Vec<Line>,
    trailing_msg: bool,
    link: LinkCfg,
}

fn text(sym: u8) -> String {
    ALPHABET[sym as usize].replace("{U}", &hex(&UID.to_string())).replace("{O}", &hex(&OTHER_UID.to_string()))
}

// ---------------- reference model (written from the spec's server state table) ----------------

#[derive(Clone, Copy, Debug, PartialEq)]
enum St {
    Auth,
    Data,
    Begin,
    Done,
}

#[derive(Clone, Copy, Debug, PartialEq)]
enum Resp {
    Ok,
    Rejected,
    Error,
    Data,
    Agree,
    Silent,
    Abort,
}

fn unhex(s: &str) -> Option<Vec<u8>> {
    if s.len() % 2 != 0 {
        return None;
    }
    (0..s.len()).step_by(2).map(|i| u8::from_str_radix(s.get(i..i + 2)?, 16).ok()).collect()
}

/// `Some(true)` accept, `Some(false)` reject, `None` malformed identity.
fn external_ok(identity: &[u8], uid: Option<u32>) -> Option<bool> {
    let s = std::str::from_utf8(identity).ok()?;
    let claimed: u32 = s.parse().ok()?;
    Some(uid == Some(claimed))
}

fn model_step(st: St, line: &str, mech: &str, uid: Option<u32>, can_fd: bool) -> Vec<(Resp, St)> {
    use Resp::*;
    let words: Vec<&str> = line.split_ascii_whitespace().collect();
    let malformed = |same: St| vec![(Abort, same), (Error, same), (Rejected, St::Auth)];
    match words.first().copied() {
        Some("AUTH") => {
            if st != St::Auth {
                // misplaced; a malformed argument may also end the conversation
                let bad_hex = words.get(2).map(|h| unhex(h).is_none()).unwrap_or(false);
                return if bad_hex { vec![(Error, st), (Abort, st)] } else { vec![(Error, st)] };
            }
            let bad_hex = words.get(2).map(|h| unhex(h).is_none()).unwrap_or(false);
            match words.get(1) {
                None => vec![(Rejected, St::Auth)],
                // (a malformed initial response may end the conversation whatever the mechanism)
                Some(m) if *m != mech && bad_hex => vec![(Rejected, St::Auth), (Abort, St::Auth)],
                Some(m) if *m != mech => vec![(Rejected, St::Auth)],
                Some(_) => match words.get(2) {
                    None => vec![(Data, St::Data)],
                    Some(h) => match unhex(h) {
                        None => malformed(St::Auth),
                        Some(id) => {
                            if mech == "ANONYMOUS" {
                                vec![(Ok, St::Begin)]
                            } else {
                                match external_ok(&id, uid) {
                                    Some(true) => vec![(Ok, St::Begin)],
                                    Some(false) => vec![(Rejected, St::Auth)],
                                    None => malformed(St::Auth),
                                }
                            }
                        }
                    },
                },
            }
        }
        Some("DATA") => {
            let arg = words.get(1).map(|h| unhex(h));
            if st != St::Data {
                return if matches!(arg, Some(None)) { vec![(Error, st), (Abort, st)] } else { vec![(Error, st)] };
            }
            match arg {
                Some(None) => malformed(St::Data),
                None => {
                    // empty identity: whoever the credentials say, provided they are known
                    if mech == "ANONYMOUS" || uid.is_some() {
                        vec![(Ok, St::Begin)]
                    } else {
                        vec![(Rejected, St::Auth)]
                    }
                }
                Some(Some(id)) => {
                    if mech == "ANONYMOUS" {
                        vec![(Ok, St::Begin)]
                    } else {
                        match external_ok(&id, uid) {
                            Some(true) => vec![(Ok, St::Begin)],
                            Some(false) => vec![(Rejected, St::Auth)],
                            None => malformed(St::Data),
                        }
                    }
                }
            }
        }
        Some("BEGIN") => {
            if st == St::Begin {
                vec![(Silent, St::Done)]
            } else {
                // the spec ends the conversation, the property says misplaced commands get ERROR
                vec![(Error, st), (Abort, st)]
            }
        }
        // The spec answers CANCEL/ERROR with REJECTED (back to waiting for AUTH); the property
        // statement is silent about them, so answering ERROR and staying put is accepted too.
        Some("CANCEL") | Some("ERROR") => vec![(Rejected, St::Auth), (Error, st)],
        Some("NEGOTIATE_UNIX_FD") => {
            if st == St::Begin {
                if can_fd {
                    vec![(Agree, St::Begin)]
                } else {
                    vec![(Error, St::Begin)]
                }
            } else {
                vec![(Error, st)]
            }
        }
        // unknown commands, empty lines, and server-only commands sent by a client
        _ => vec![(Error, st)],
    }
}

fn classify_reply(l: &str, mech: &str) -> Result<Resp, String> {
    let w: Vec<&str> = l.split_ascii_whitespace().collect();
    match w.first().copied() {
        Some("OK") => {
            if w.get(1).copied() == Some(GUID) && w.len() == 2 {
                Ok(Resp::Ok)
            } else {
                Err(format!("OK with wrong guid: {l:?}"))
            }
        }
        Some("REJECTED") => {
            if w[1..] == [mech] {
                Ok(Resp::Rejected)
            } else {
                Err(format!("REJECTED lists {:?}, configured mechanism is {mech}", &w[1..]))
            }
        }
        Some("ERROR") => Ok(Resp::Error),
        Some("DATA") => Ok(Resp::Data),
        Some("AGREE_UNIX_FD") => Ok(Resp::Agree),
        _ => Err(format!("server wrote an unknown line {l:?}")),
    }
}

fn trailing_message() -> Vec<u8> {
    RawMsg::signal(7, "/c16", "org.c16.I", "AfterBegin").body(&[Val::str("first message")]).encode()
}

impl Scenario for C16Scn {
    fn id(&self) -> &'static str {
        "C16"
    }
    fn rule(&self) -> &'static str {
        "plan = client transcript (1..6 lines over a 22-symbol alphabet: AUTH forms with matching/other/non-numeric/non-hex identities, DATA forms, BEGIN, CANCEL, ERROR, NEGOTIATE_UNIX_FD, unknown, empty, server-only commands) x line-ending faults (bare LF, bare CR, stray leading LF, missing NUL) x peer credentials known/unknown x EXTERNAL/ANONYMOUS (socket default or explicit) x fd-capable or not x read splits and latency x optional trailing message; thorough also enumerates every transcript of <= 3 lines; oracle = SASL server reference model in lock-step with the replies zbus wrote; non-trivial = >= 2 lines and at least one read boundary strictly inside a line"
    }
    fn runs(&self, tier: Tier) -> u64 {
        match tier {
            Tier::Quick => 40_000,
            Tier::Thorough => 1_200_000,
        }
    }
    fn real(&self) -> Vec<&'static str> {
        vec!["connection builder (p2p server)", "handshake::Server state machine", "handshake::Common line reader/writer", "Command parser", "socket reader + MessageStream for the bytes after BEGIN"]
    }
    fn stubbed(&self) -> Vec<&'static str> {
        vec!["OS socket and peer credentials (SimSocket)", "executor (seeded scheduler)", "clock", "client (scripted raw bytes)"]
    }
    fn assumptions(&self) -> Vec<&'static str> {
        vec!["where the specification's state table and the property text differ or are silent (BEGIN before AUTH, CANCEL while waiting for AUTH, malformed hex / non-numeric identity) the model accepts each documented alternative: ERROR, REJECTED or ending the conversation"]
    }

    fn generate(&self, rng: &mut Rng, idx: u64, tier: Tier) -> (SchedCfg, Value) {
        let n_sym = ALPHABET.len() as u64;
        let enumerated = 2 * 2 * (n_sym + n_sym * n_sym + n_sym * n_sym * n_sym);
        let mut p = P {
            uid_known: rng.chance(2, 3),
            anonymous: rng.chance(1, 3),
            explicit_mech: rng.chance(1, 2),
            can_fd: rng.chance(1, 2),
            leading_nul: !rng.chance(1, 30),
            leading_lf: rng.chance(1, 40),
            lines: vec![],
            trailing_msg: rng.chance(1, 2),
            link: gen_read_cfg(rng),
        };
        if tier == Tier::Thorough && idx < enumerated {
            // systematic: all transcripts of 1..3 lines x creds x mech, clean line endings
            let mut k = idx;
            p.uid_known = k % 2 == 0;
            k /= 2;
            p.anonymous = k % 2 == 1;
            k /= 2;
            let syms: Vec<u8> = if k < n_sym {
                vec![k as u8]
            } else if k < n_sym + n_sym * n_sym {
                let k = k - n_sym;
                vec![(k / n_sym) as u8, (k % n_sym) as u8]
            } else {
                let k = k - n_sym - n_sym * n_sym;
                vec![(k / (n_sym * n_sym)) as u8, ((k / n_sym) % n_sym) as u8, (k % n_sym) as u8]
            };
            p.leading_nul = true;
            p.leading_lf = false;
            p.lines = syms.into_iter().map(|sym| Line { sym, ending: Ending::CrLf }).collect();
        } else {
            // biased random walk: mostly plausible transcripts with a deviation here and there
            let n = rng.range(1, 6);
            for _ in 0..n {
                let sym = if rng.chance(1, 2) {
                    *rng.pick(&[1u8, 2, 2, 6, 7, 9, 10, 12, 12, 16])
                } else {
                    rng.below(n_sym) as u8
                };
                let ending = match rng.below(40) {
                    0 => Ending::Lf,
                    1 => Ending::Cr,
                    _ => Ending::CrLf,
                };
                p.lines.push(Line { sym, ending });
            }
        }
        let sched = SchedCfg::generate(rng, &[]);
        (sched, j(&p))
    }

    fn shrink(&self, body: &Value) -> Vec<Value> {
        let p: P = unj(body);
        let mut out = vec![];
        for ls in drop_candidates(&p.lines) {
            if ls.is_empty() {
                continue;
            }
            let mut q = p.clone();
            q.lines = ls;
            out.push(j(&q));
        }
        if p.link != LinkCfg::default() {
            let mut q = p.clone();
            q.link = LinkCfg::default();
            out.push(j(&q));
        }
        for f in [
            |q: &mut P| q.trailing_msg = false,
            |q: &mut P| q.leading_lf = false,
            |q: &mut P| q.leading_nul = true,
            |q: &mut P| q.explicit_mech = false,
            |q: &mut P| q.can_fd = false,
            |q: &mut P| q.lines.iter_mut().for_each(|l| l.ending = Ending::CrLf),
        ] {
            let mut q = p.clone();
            f(&mut q);
            if q != p {
                out.push(j(&q));
            }
        }
        out
    }

    fn run(&self, w: &World, body: &Value) -> Verdict {
        let p: P = unj(body);
        let mech = if p.anonymous { "ANONYMOUS" } else { "EXTERNAL" };
        let uid = if p.uid_known { Some(UID) } else { None };
        let sock_cfg = SockCfg { can_pass_fd: p.can_fd, uid, mech_anonymous: p.anonymous && !p.explicit_mech };
        let (sock, raw) = sim_pair(w, p.link.clone(), LinkCfg::default(), sock_cfg);

        // what the client sends
        let mut bytes = vec![];
        if p.leading_lf {
            bytes.push(b'\n');
        }
        if p.leading_nul {
            bytes.push(0);
        }
        let mut line_ranges = vec![];
        for l in &p.lines {
            let s = bytes.len();
            bytes.extend_from_slice(text(l.sym).as_bytes());
            bytes.extend_from_slice(match l.ending {
                Ending::CrLf => b"\r\n",
                Ending::Lf => b"\n",
                Ending::Cr => b"\r",
            });
            line_ranges.push((s as u64, bytes.len() as u64));
        }
        let sasl_len = bytes.len();
        let trailing = trailing_message();
        if p.trailing_msg {
            bytes.extend_from_slice(&trailing);
        }

        #[derive(Debug)]
        enum Built {
            Ok(Vec<Vec<u8>>, bool),
            Err(String),
        }
        let result = shared(None::<Built>);
        let r2 = result.clone();
        let anonymous = p.anonymous;
        let explicit = p.explicit_mech;
        let server = w.spawn("server", async move {
            let mut b = match Builder::socket(sock).server(GUID) {
                Ok(b) => b.p2p().internal_executor(false),
                Err(e) => {
                    *r2.lock().unwrap() = Some(Built::Err(format!("builder: {e}")));
                    return;
                }
            };
            if explicit {
                b = b.auth_mechanism(if anonymous { zbus::AuthMechanism::Anonymous } else { zbus::AuthMechanism::External });
            }
            match b.build().await {
                Err(e) => *r2.lock().unwrap() = Some(Built::Err(e.to_string())),
                Ok(conn) => {
                    let mut s = MessageStream::from(&conn);
                    *r2.lock().unwrap() = Some(Built::Ok(vec![], false));
                    while let Some(item) = s.next().await {
                        let mut g = r2.lock().unwrap();
                        if let Some(Built::Ok(msgs, errored)) = g.as_mut() {
                            match item {
                                Ok(m) => msgs.push(m.data().bytes().to_vec()),
                                Err(_) => *errored = true,
                            }
                        }
                    }
                }
            }
        });

        let replies = shared(Vec::<u8>::new());
        let rep2 = replies.clone();
        let raw2 = raw.clone();
        let client = w.spawn("client", async move {
            raw2.write(&bytes);
            raw2.close();
            while let Ok((b, _)) = raw2.read().await {
                if b.is_empty() {
                    break;
                }
                rep2.lock().unwrap().extend_from_slice(&b);
            }
        });

        w.run();

        let built = result.lock().unwrap().take();
        let reads = raw.tx.st.lock().unwrap().reads_after_bytes.clone();
        drop(server);
        drop(client);
        raw.tx.drop_wakers();
        raw.rx.drop_wakers();

        // ---- oracle: lock-step walk ----
        let reply_bytes = replies.lock().unwrap().clone();
        let reply_text = String::from_utf8_lossy(&reply_bytes).into_owned();
        if !reply_bytes.is_empty() && !reply_text.ends_with("\r\n") {
            return Verdict::fail("reply", "unterminated-reply", format!("server output does not end in CRLF: {reply_text:?}"));
        }
        let observed: Vec<&str> = reply_text.split("\r\n").filter(|l| !l.is_empty()).collect();
        let mut obs_i = 0;
        let mut st = St::Auth;
        let mut aborted = false;
        let mut unjudged_tail = false;
        let clean_start = p.leading_nul && !p.leading_lf;
        let mut lines_seen = 0;
        if clean_start {
            for (i, l) in p.lines.iter().enumerate() {
                if st == St::Done {
                    break;
                }
                if l.ending != Ending::CrLf {
                    // a broken line ending: the server may only fail (no reply is owed), and it is the
                    // end of what this model judges
                    aborted = true;
                    unjudged_tail = true;
                    break;
                }
                lines_seen = i + 1;
                let line = text(l.sym);
                let allowed = model_step(st, &line, mech, uid, p.can_fd);
                // what did zbus do for this line?
                let got: Resp = if obs_i < observed.len() {
                    match classify_reply(observed[obs_i], mech) {
                        Ok(r) => r,
                        Err(e) => return Verdict::fail("reply", "bad-reply", e),
                    }
                } else {
                    Resp::Abort
                };
                // `Silent` and `Abort` consume no reply
                let pick = if let Some((r, ns)) = allowed.iter().find(|(r, _)| *r == got && *r != Resp::Abort) {
                    obs_i += 1;
                    Some((*r, *ns))
                } else if let Some((r, ns)) = allowed.iter().find(|(r, _)| *r == Resp::Silent) {
                    Some((*r, *ns))
                } else if got == Resp::Abort && allowed.iter().any(|(r, _)| *r == Resp::Abort) {
                    aborted = true;
                    None
                } else {
                    let want: Vec<String> = allowed.iter().map(|(r, _)| format!("{r:?}")).collect();
                    let disc = format!("{}-in-{:?}-got-{:?}", line.split(' ').next().unwrap_or("").to_lowercase(), st, got);
                    return Verdict::fail(
                        "reply",
                        disc,
                        format!("line {i} {line:?} in state {st:?} (mech {mech}, uid {uid:?}): server answered {got:?}, the model allows {want:?}; all replies: {observed:?}"),
                    );
                };
                match pick {
                    Some((_, ns)) => st = ns,
                    None => break,
                }
            }
        } else {
            aborted = true;
            unjudged_tail = true;
        }
        if !aborted && obs_i < observed.len() {
            return Verdict::fail("reply", "extra-replies", format!("server wrote more replies than lines were sent: {observed:?}"));
        }
        // outcome
        if unjudged_tail && st != St::Done {
            // line-ending faults / missing NUL: only "no panic" is judged past that point
            return Verdict::ok(false);
        }
        match (&built, st) {
            (None, _) => return Verdict::harness("server task did not finish"),
            (Some(Built::Ok(msgs, errored)), St::Done) => {
                // bytes after BEGIN are the message stream
                let rest_is_clean = lines_seen == p.lines.len();
                if rest_is_clean && p.trailing_msg {
                    if msgs.len() != 1 || msgs[0] != trailing {
                        return Verdict::fail("leftover", "trailing-message-lost", format!("the message sent right after BEGIN was not delivered intact (got {} messages, errored={errored})", msgs.len()));
                    }
                    w.count("probe.message_after_begin_delivered");
                }
                w.count("probe.authenticated");
            }
            (Some(Built::Ok(..)), s) => {
                return Verdict::fail(
                    "authz",
                    format!("authenticated-in-model-state-{s:?}-{mech}-uid{}", if uid.is_some() { "known" } else { "unknown" }),
                    format!("the server completed the handshake but the reference model is in state {s:?} after {:?} (mech {mech}, uid {uid:?}); replies {observed:?}", p.lines.iter().map(|l| text(l.sym)).collect::<Vec<_>>()),
                );
            }
            (Some(Built::Err(e)), St::Done) => {
                return Verdict::fail("liveness", "rejected-valid-handshake", format!("the model authenticated this client but build() failed: {e}"));
            }
            (Some(Built::Err(_)), _) => {
                w.count("probe.refused");
            }
        }
        let _ = sasl_len;
        let split = line_ranges.iter().any(|(s, e)| reads.iter().any(|r| *r > *s && *r < *e));
        if split {
            w.count("probe.line_split_across_reads");
        }
        Verdict::ok(p.lines.len() >= 2 && split)
    }
}
