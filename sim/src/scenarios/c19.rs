//! C19 — every method call receives its own reply and only its own reply.
use std::time::Duration;

use serde::{Deserialize, Serialize};
use serde_json::Value;
use zbus::connection::Builder;

use super::common::*;
use crate::{
    framework::{Scenario, Tier, Verdict},
    kernel::{SchedCfg, World},
    net::{sim_pair, ErrKind, LinkCfg, SockCfg},
    peers::{PeerReader, GUID},
    rng::Rng,
    wire::{RawMsg, Val, T_CALL},
};

pub struct C19Scn;
pub static C19: C19Scn = C19Scn;

#[derive(Clone, Copy, Debug, Serialize, Deserialize, PartialEq)]
enum Api {
    CallMethod,
    ProxyCall,
    NoReply,
}

#[derive(Clone, Copy, Debug, Serialize, Deserialize, PartialEq)]
enum Action {
    Return,
    Error,
    Never,
}

#[derive(Clone, Debug, Serialize, Deserialize, PartialEq)]
struct Call {
    api: Api,
    action: Action,
    /// peer waits this long (simulated) before answering
    delay_us: u32,
    /// the reply is sent twice
    dup: bool,
    /// a reply with an unknown serial (and a foreign token) is sent first
    stray: bool,
    /// an unrelated signal is sent first
    signal: bool,
    /// caller yields this many times before the call
    gap: u8,
}

#[derive(Clone, Copy, Debug, Serialize, Deserialize, PartialEq)]
enum Fault {
    /// inbound EOF once this many bytes were read by zbus
    EofAt(u64),
    /// inbound ECONNRESET at that offset
    ResetAt(u64),
    /// the peer vanishes at this simulated time (us)
    CrashAt(u32),
}

#[derive(Clone, Debug, Serialize, Deserialize, PartialEq)]
struct P {
    callers: Vec<Vec<Call>>,
    timeout_ms: Option<u32>,
    fault: Option<Fault>,
    link_in: LinkCfg,
    link_out: LinkCfg,
    /// per caller: the task is cancelled at its n-th await point that returns Pending (fault kind `cancel_task`)
    #[serde(default)]
    cancel: Vec<Option<u32>>,
}

#[derive(Clone, Debug, PartialEq)]
enum Res {
    Pending,
    Ok(u32, u32),
    MethodErr(String, u32, u32),
    Timeout,
    Err(String),
}

#[derive(Clone, Debug)]
struct Rec {
    t_start: u64,
    t_done: u64,
    res: Res,
}

impl Scenario for C19Scn {
    fn id(&self) -> &'static str {
        "C19"
    }
    fn rule(&self) -> &'static str {
        "plan = 1..5 caller tasks (one run in 20: 9..14, more than the method-return channel of 8 holds) x 1..3 sequential calls each (call_method / Proxy::call / no-reply), per call the peer's decision (return / error / never), simulated delay, duplicate reply, stray reply with an unknown serial, unrelated signal, optional method timeout on the simulated clock, optional fault (inbound EOF or ECONNRESET at a byte offset, peer crash at a time; a caller task cancelled at a seeded await point - while sending or while waiting - whose unfinished calls are not judged while everybody else's are), read/write splits, latency, task stalls on callers and on the socket reader; oracle per call: exactly the reply carrying its own token, or an error when faults/timeouts say so, timeout not before its duration elapsed, nothing left pending once the link died or a timeout is configured; non-trivial = at least two calls were outstanding at the peer and the replies left in a different order than the calls arrived, or a fault fired while a call was outstanding"
    }
    fn runs(&self, tier: Tier) -> u64 {
        match tier {
            Tier::Quick => 16_000,
            Tier::Thorough => 1_000_000,
        }
    }
    fn real(&self) -> Vec<&'static str> {
        vec!["Connection::call_method / call_method_raw / PendingMethodCall", "Proxy::call / call_noreply", "socket reader fan-out to the method-return channel", "MessageStream over async-broadcast", "abstractions::timeout on the simulated clock"]
    }
    fn stubbed(&self) -> Vec<&'static str> {
        vec!["OS socket (SimSocket)", "executor (seeded scheduler)", "timers/clock (discrete-event)", "peer (scripted raw responder with an independent codec)"]
    }

    fn generate(&self, rng: &mut Rng, _idx: u64, _tier: Tier) -> (SchedCfg, Value) {
        // one run in 20: more outstanding calls than the method-return channel holds (8), so that the socket
        // reader has to wait for callers to take their replies
        let flood = rng.chance(1, 20);
        let nc = if flood { rng.range(9, 14) as usize } else { rng.range(1, 5) as usize };
        let timeout_ms = if rng.chance(1, 3) { Some(*rng.pick(&[1u32, 20, 25_000])) } else { None };
        let mut callers = vec![];
        for _ in 0..nc {
            let n = rng.range(1, 3);
            let mut v = vec![];
            for _ in 0..n {
                let action = match rng.below(10) {
                    0..=5 => Action::Return,
                    6..=7 => Action::Error,
                    _ => Action::Never,
                };
                v.push(Call {
                    api: *rng.pick(&[Api::CallMethod, Api::CallMethod, Api::ProxyCall, Api::NoReply]),
                    action,
                    delay_us: *rng.pick(&[0u32, 0, 1, 50, 400, 3_000, 30_000]),
                    dup: rng.chance(1, 6),
                    stray: rng.chance(1, 5),
                    signal: rng.chance(1, 4),
                    gap: rng.below(3) as u8,
                });
            }
            callers.push(v);
        }
        let fault = match rng.below(10) {
            0 => Some(Fault::EofAt(rng.range(0, 600))),
            1 => Some(Fault::ResetAt(rng.range(0, 600))),
            2 => Some(Fault::CrashAt(*rng.pick(&[0u32, 1, 100, 1_000, 10_000]))),
            _ => None,
        };
        let sched = SchedCfg::generate(rng, &["caller", "socket reader", "peer"]);
        let (link_in, link_out) = (gen_read_cfg(rng), gen_write_cfg(rng));
        // some callers are cancelled in the middle of a call (while sending, while waiting for the reply)
        let mut cancel = vec![None; nc];
        if nc >= 2 && rng.chance(1, 4) {
            cancel[rng.usize(nc)] = Some(rng.below(10) as u32);
        }
        (sched, j(&P { callers, timeout_ms, fault, link_in, link_out, cancel }))
    }

    fn shrink(&self, body: &Value) -> Vec<Value> {
        let p: P = unj(body);
        let mut out = vec![];
        let zipped: Vec<(Vec<Call>, Option<u32>)> = p.callers.iter().cloned().enumerate().map(|(i, c)| (c, p.cancel.get(i).copied().flatten())).collect();
        for c in drop_candidates(&zipped) {
            if !c.is_empty() {
                let mut q = p.clone();
                q.callers = c.iter().map(|x| x.0.clone()).collect();
                q.cancel = c.iter().map(|x| x.1).collect();
                out.push(j(&q));
            }
        }
        for (i, c) in p.cancel.iter().enumerate() {
            if c.is_some() {
                let mut q = p.clone();
                q.cancel[i] = None;
                out.push(j(&q));
            }
        }
        for (i, c) in p.callers.iter().enumerate() {
            for cs in drop_candidates(c) {
                if !cs.is_empty() {
                    let mut q = p.clone();
                    q.callers[i] = cs;
                    out.push(j(&q));
                }
            }
            for (k, call) in c.iter().enumerate() {
                let simple = Call { api: call.api, action: call.action, delay_us: 0, dup: false, stray: false, signal: false, gap: 0 };
                if *call != simple {
                    let mut q = p.clone();
                    q.callers[i][k] = simple;
                    out.push(j(&q));
                }
            }
        }
        for f in [
            |q: &mut P| q.link_in = LinkCfg::default(),
            |q: &mut P| q.link_out = LinkCfg::default(),
            |q: &mut P| q.fault = None,
            |q: &mut P| q.timeout_ms = None,
        ] {
            let mut q = p.clone();
            f(&mut q);
            if q != p {
                out.push(j(&q));
            }
        }
        out
    }

    fn run(&self, w: &World, body: &Value) -> Verdict {
        let p: P = unj(body);
        let mut link_in = p.link_in.clone();
        match p.fault {
            Some(Fault::EofAt(o)) => link_in.eof_at = Some(o),
            Some(Fault::ResetAt(o)) => link_in.err_at = Some((o, ErrKind::Reset)),
            _ => {}
        }
        let (sock, raw) = sim_pair(w, link_in, p.link_out.clone(), SockCfg::default());
        let recs = shared(
            p.callers.iter().map(|c| c.iter().map(|_| Rec { t_start: 0, t_done: 0, res: Res::Pending }).collect::<Vec<_>>()).collect::<Vec<_>>(),
        );
        let started = shared(false);

        // ---- app ----
        let p2 = p.clone();
        let recs2 = recs.clone();
        let st2 = started.clone();
        let ww = w.clone();
        let app = w.spawn("app", async move {
            let mut b = Builder::authenticated_socket(sock, GUID).unwrap().p2p().internal_executor(false);
            if let Some(ms) = p2.timeout_ms {
                b = b.method_timeout(Duration::from_millis(ms as u64));
            }
            let conn = match b.build().await {
                Ok(c) => c,
                Err(_) => return vec![],
            };
            *st2.lock().unwrap() = true;
            let mut tasks = vec![];
            for (ci, calls) in p2.callers.iter().enumerate() {
                let conn = conn.clone();
                let calls = calls.clone();
                let recs = recs2.clone();
                let w3 = ww.clone();
                let cancel_at = p2.cancel.get(ci).copied().flatten();
                tasks.push(ww.spawn(&format!("caller-{ci}"), cancel_after(&ww, cancel_at, async move {
                    for (k, c) in calls.iter().enumerate() {
                        for _ in 0..c.gap {
                            w3.yield_now().await;
                        }
                        recs.lock().unwrap()[ci][k].t_start = w3.now();
                        let token = (ci as u32, k as u32);
                        let r: zbus::Result<Option<zbus::Message>> = match c.api {
                            Api::CallMethod => conn.call_method(None::<&str>, "/c19", Some("org.c19.I"), "Do", &token).await.map(Some),
                            Api::ProxyCall | Api::NoReply => {
                                let px = zbus::proxy::Builder::<zbus::Proxy<'_>>::new(&conn)
                                    .destination("org.c19.Dest")
                                    .unwrap()
                                    .path("/c19")
                                    .unwrap()
                                    .interface("org.c19.I")
                                    .unwrap()
                                    .cache_properties(zbus::proxy::CacheProperties::No)
                                    .build()
                                    .await;
                                match px {
                                    Err(e) => Err(e),
                                    Ok(px) => {
                                        if c.api == Api::NoReply {
                                            px.call_noreply("Do", &token).await.map(|_| None)
                                        } else {
                                            px.call_method("Do", &token).await.map(Some)
                                        }
                                    }
                                }
                            }
                        };
                        let res = match r {
                            Ok(Some(m)) => match m.body().deserialize::<(u32, u32)>() {
                                Ok((a, b)) => Res::Ok(a, b),
                                Err(e) => Res::Err(format!("undecodable reply: {e}")),
                            },
                            Ok(None) => Res::Ok(token.0, token.1),
                            Err(zbus::Error::MethodError(name, _, m)) => match m.body().deserialize::<(String, u32, u32)>() {
                                Ok((_, a, b)) => Res::MethodErr(name.to_string(), a, b),
                                Err(e) => Res::Err(format!("undecodable error reply: {e}")),
                            },
                            Err(zbus::Error::InputOutput(e)) if e.kind() == std::io::ErrorKind::TimedOut => Res::Timeout,
                            Err(e) => Res::Err(e.to_string()),
                        };
                        let mut g = recs.lock().unwrap();
                        g[ci][k].t_done = w3.now();
                        g[ci][k].res = res;
                    }
                })));
            }
            tasks
        });

        // ---- peer ----
        // (arrival order, reply order) for the non-trivial rule
        let arrivals = shared(Vec::<(u32, u32)>::new());
        let departures = shared(Vec::<(u32, u32)>::new());
        let p3 = p.clone();
        let raw2 = raw.clone();
        let ww = w.clone();
        let (arr2, dep2) = (arrivals.clone(), departures.clone());
        let peer = w.spawn("peer", async move {
            let mut r = PeerReader::new(raw2.clone());
            let mut serial = 1000u32;
            let mut subtasks = vec![];
            loop {
                let m = match r.msg().await {
                    Ok(Some(m)) => m,
                    _ => break,
                };
                if m.mtype != T_CALL {
                    continue;
                }
                let (ci, k) = match m.body_vals().ok().as_deref() {
                    Some([Val::U32(a), Val::U32(b)]) => (*a, *b),
                    _ => continue,
                };
                let Some(plan) = p3.callers.get(ci as usize).and_then(|c| c.get(k as usize)).cloned() else { continue };
                arr2.lock().unwrap().push((ci, k));
                let no_reply_flag = m.flags & 1 != 0;
                serial += 10;
                let s0 = serial;
                let raw3 = raw2.clone();
                let w4 = ww.clone();
                let dep3 = dep2.clone();
                let call_serial = m.serial;
                subtasks.push(ww.spawn(&format!("peer-reply-{ci}-{k}"), async move {
                    if plan.signal {
                        raw3.write(&RawMsg::signal(s0, "/c19", "org.c19.I", "Noise").body(&[Val::U32(ci), Val::U32(k)]).encode());
                    }
                    if plan.stray {
                        // a reply nobody asked for, carrying a foreign token
                        raw3.write(&RawMsg::ret(s0 + 1, call_serial.wrapping_add(5000)).body(&[Val::U32(900 + ci), Val::U32(900 + k)]).encode());
                    }
                    if plan.delay_us > 0 {
                        w4.sleep_ns(plan.delay_us as u64 * 1000).await;
                    }
                    if no_reply_flag {
                        return;
                    }
                    let reply = match plan.action {
                        Action::Never => return,
                        Action::Return => RawMsg::ret(s0 + 2, call_serial).body(&[Val::U32(ci), Val::U32(k)]),
                        Action::Error => RawMsg::error(s0 + 2, call_serial, "org.c19.Error.Nope").body(&[Val::str("nope"), Val::U32(ci), Val::U32(k)]),
                    }
                    .encode();
                    dep3.lock().unwrap().push((ci, k));
                    raw3.write(&reply);
                    if plan.dup {
                        raw3.write(&reply);
                    }
                }));
            }
            drop(subtasks);
        });

        let crashed = shared(false);
        if let Some(Fault::CrashAt(us)) = p.fault {
            let raw4 = raw.clone();
            let c2 = crashed.clone();
            let ww = w.clone();
            w.call_at(crate::kernel::START_NS + us as u64 * 1000, move || {
                ww.log(|| "FAULT: peer crashes".to_string());
                ww.count("fault.peer_crash");
                *c2.lock().unwrap() = true;
                raw4.crash();
            });
        }

        w.run();

        let recs_v = recs.lock().unwrap().clone();
        let inbound = raw.tx.clone();
        let read_total = inbound.st.lock().unwrap().total_read;
        let fault_fired = match p.fault {
            Some(Fault::EofAt(o)) | Some(Fault::ResetAt(o)) => read_total >= o,
            Some(Fault::CrashAt(_)) => *crashed.lock().unwrap(),
            None => false,
        };
        let arr = arrivals.lock().unwrap().clone();
        let dep = departures.lock().unwrap().clone();
        let ok_started = *started.lock().unwrap();
        drop(app);
        drop(peer);
        raw.tx.drop_wakers();
        raw.rx.drop_wakers();
        if !ok_started {
            return Verdict::harness("connection did not build");
        }

        // ---- oracle ----
        let tmo = p.timeout_ms.map(|m| m as u64 * 1_000_000);
        for (ci, calls) in p.callers.iter().enumerate() {
            for (k, c) in calls.iter().enumerate() {
                let rec = &recs_v[ci][k];
                let me = (ci as u32, k as u32);
                let name = format!("call ({ci},{k}) {:?}/{:?}", c.api, c.action);
                // never a foreign reply
                match &rec.res {
                    Res::Ok(a, b) | Res::MethodErr(_, a, b) if (*a, *b) != me => {
                        return Verdict::fail("foreign", "foreign-reply", format!("{name} completed with the reply carrying token ({a},{b})"));
                    }
                    _ => {}
                }
                // a cancelled caller's unfinished calls are not judged (its finished ones are)
                if rec.res == Res::Pending && p.cancel.get(ci).copied().flatten().is_some() {
                    continue;
                }
                if rec.t_start == 0 {
                    // never started: an earlier call of this caller is (legitimately or not) stuck; judged there
                    continue;
                }
                if let Res::Timeout = rec.res {
                    match tmo {
                        None => return Verdict::fail("timeout", "timeout-without-config", format!("{name} timed out, no timeout configured")),
                        Some(t) if rec.t_done < rec.t_start + t => {
                            return Verdict::fail("timeout", "timeout-too-early", format!("{name} timed out after {} ns, configured {} ns", rec.t_done - rec.t_start, t));
                        }
                        _ => {}
                    }
                }
                let effective = if c.api == Api::NoReply { None } else { Some(c.action) };
                // the longest the peer's answer can take to reach the caller (simulated)
                let worst_ns = c.delay_us as u64 * 1000
                    + p.link_in.latency_unit_ns * p.link_in.latency_steps as u64
                    + p.link_out.latency_unit_ns * p.link_out.latency_steps as u64;
                let acceptable = match (&rec.res, effective) {
                    (Res::Pending, _) if fault_fired => {
                        return Verdict::fail("hang", "pending-after-link-failure", format!("{name} is still pending although the connection failed ({:?})", p.fault));
                    }
                    (Res::Pending, Some(_)) if tmo.is_some() => {
                        return Verdict::fail("hang", "pending-despite-timeout", format!("{name} is still pending although a method timeout of {:?} ms is configured", p.timeout_ms));
                    }
                    (Res::Pending, Some(Action::Never)) => true,
                    (Res::Pending, _) => {
                        return Verdict::fail("hang", "pending-with-reply-sent", format!("{name} never completed although nothing failed"));
                    }
                    (Res::Ok(..), None) | (Res::Ok(..), Some(Action::Return)) => true,
                    (Res::MethodErr(n, ..), Some(Action::Error)) => n == "org.c19.Error.Nope",
                    (Res::Timeout, Some(Action::Never)) => true,
                    (Res::Timeout, Some(_)) => fault_fired || tmo.map(|t| worst_ns >= t).unwrap_or(false),
                    (Res::Err(_), _) => fault_fired,
                    _ => false,
                };
                if !acceptable {
                    let kind = match &rec.res {
                        Res::Ok(..) => "ok",
                        Res::MethodErr(..) => "method-error",
                        Res::Timeout => "timeout",
                        Res::Err(_) => "error",
                        Res::Pending => "pending",
                    };
                    return Verdict::fail(
                        "outcome",
                        format!("{kind}-for-{effective:?}"),
                        format!("{name} completed with {:?} (fault fired: {fault_fired}, timeout {:?} ms, worst-case answer latency {worst_ns} ns)", rec.res, p.timeout_ms),
                    );
                }
            }
        }
        // non-trivial
        let mut reordered = false;
        let arr_replied: Vec<&(u32, u32)> = arr.iter().filter(|a| dep.contains(a)).collect();
        if arr_replied.len() >= 2 && arr_replied.iter().zip(dep.iter()).any(|(a, d)| *a != d) {
            reordered = true;
            w.count("probe.replies_out_of_call_order");
        }
        let fault_with_outstanding = fault_fired && recs_v.iter().flatten().any(|r| matches!(r.res, Res::Err(_)));
        if fault_with_outstanding {
            w.count("probe.fault_with_call_outstanding");
        }
        if recs_v.iter().flatten().any(|r| r.res == Res::Timeout) {
            w.count("probe.call_timed_out");
        }
        Verdict::ok(reordered || fault_with_outstanding)
    }
}
