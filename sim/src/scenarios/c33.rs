//! C33 — generated proxies and interfaces agree on the wire (async and blocking proxies).
use std::collections::HashMap;

use futures_lite::StreamExt;
use serde::{Deserialize, Serialize};
use serde_json::Value;
use zbus::{zvariant, Connection};

use super::common::*;
use crate::{
    corpus::{new_log, SimAProxy, SimAProxyBlocking, A},
    corpus_gen,
    framework::{Scenario, Tier, Verdict},
    kernel::{SchedCfg, World},
    net::{sim_socket_pair, LinkCfg, SockCfg},
    rng::Rng,
};

pub struct C33Scn;
pub static C33: C33Scn = C33Scn;

#[derive(Clone, Debug, Serialize, Deserialize, PartialEq)]
enum MOp {
    Add(i32, i32),
    Concat(String, String),
    Half(u32),
    Pair(u8, bool),
    Nothing,
    Sum(Vec<u16>),
    Count(Vec<(String, u32)>),
    Describe(u8),
    Checked(i16),
    Wide(u8, i64, u32, String, u32, String),
    Bump(u64),
    /// a method taking one fd plus a list of n fds and returning them in the other order
    SwapFds(u8),
    GetLabel,
    SetLabel(String),
    GetLevel,
    SetLevel(u32),
    GetQuiet,
    SetQuiet(u16),
    GetFixed,
    GetCounter,
}

#[derive(Clone, Debug, Serialize, Deserialize, PartialEq)]
struct P {
    async_ops: Vec<MOp>,
    /// stateless methods only
    blocking_ops: Vec<MOp>,
    cached: bool,
    signals: Vec<(u32, String)>,
    link: LinkCfg,
    /// calls through the generated proxies: (interface, method, value seed)
    #[serde(default)]
    gen_async: Vec<(usize, usize, u64)>,
    #[serde(default)]
    gen_blocking: Vec<(usize, usize, u64)>,
    /// persistent generated proxies opened before anything else: (who: 0 = async / 1 = blocking client,
    /// interface, property, at the shared path (every generated interface on one object, so property names
    /// collide) or at the interface's own path, caching proxy); the two clients never hold the same
    /// property (their writes would race)
    #[serde(default)]
    gen_handles: Vec<(u8, usize, usize, bool, bool)>,
    /// property operations through those proxies, in order: (handle, Some(value seed) = write / None = read)
    #[serde(default)]
    gen_prop_ops: Vec<(usize, Option<u64>)>,
    /// generated signals: (interface, signal, value seed, subscriber: 0 = async stream, 1 = blocking iterator);
    /// each (interface, signal) at most once; emitted in this order after the hand-written signals
    #[serde(default)]
    gen_signals: Vec<(usize, usize, u64, u8)>,
}

/// Expected (log args, result rendering) of a stateless method.
fn expect_stateless(op: &MOp) -> Option<(&'static str, String, String)> {
    Some(match op {
        MOp::Add(a, b) => ("Add", format!("{a},{b}"), format!("Ok({})", a.wrapping_add(*b))),
        MOp::Concat(a, b) => ("Concat", format!("{a},{b}"), format!("Ok({:?})", format!("{a}{b}"))),
        MOp::Half(v) => ("Half", format!("{v}"), if v % 2 == 1 { "Err".into() } else { format!("Ok({})", v / 2) }),
        MOp::Pair(a, b) => ("Pair", format!("{a},{b}"), format!("Ok(({}, {}))", a.wrapping_add(1), !b)),
        MOp::Nothing => ("Nothing", String::new(), "Ok(())".into()),
        MOp::Sum(v) => ("Sum", format!("{v:?}"), format!("Ok({})", v.iter().map(|x| *x as u32).sum::<u32>())),
        MOp::Count(m) => {
            let map: HashMap<String, u32> = m.iter().cloned().collect();
            let mut keys: Vec<_> = map.iter().collect();
            keys.sort();
            ("Count", format!("{keys:?}"), format!("Ok({})", map.len()))
        }
        MOp::Describe(k) => {
            let sig = describe_value(*k).value_signature().to_string();
            ("Describe", sig.clone(), format!("Ok({sig:?})"))
        }
        MOp::Checked(v) => ("Checked", format!("{v}"), if *v < 0 || *v > 1000 { "Err".into() } else { format!("Ok({v})") }),
        MOp::Wide(a, b, c, d, e0, e1) => {
            let cf = *c as f64 / 4.0;
            ("Wide", format!("{a},{b},{cf},{d},{:?}", (*e0, e1.clone())), format!("Ok(({}, {:?}))", b.wrapping_add(*a as i64), format!("{d}{e1}")))
        }
        _ => return None,
    })
}

fn describe_value(k: u8) -> zvariant::Value<'static> {
    match k % 4 {
        0 => zvariant::Value::U32(7),
        1 => zvariant::Value::from("text"),
        2 => zvariant::Value::from(vec![1u8, 2, 3]),
        _ => zvariant::Value::from((5i32, "five")),
    }
}

/// Tags of the fds an fd-swapping call sends: (who, op index, k).
fn fd_tags(who: u64, idx: usize, n: u8) -> Vec<u64> {
    (0..=n as u64).map(|k| 0xC33_0000 + who * 0x1000 + (idx as u64) * 16 + k).collect()
}
fn render_fds(r: zbus::Result<(Vec<zvariant::OwnedFd>, zvariant::OwnedFd)>) -> String {
    use std::os::fd::AsFd;
    match r {
        Ok((rest, first)) => format!("Ok({:x?}, {:x})", rest.iter().map(|f| crate::net::fd_tag(f.as_fd())).collect::<Vec<_>>(), crate::net::fd_tag(first.as_fd())),
        Err(_) => "Err".into(),
    }
}
fn want_fds(tags: &[u64]) -> String {
    format!("Ok({:x?}, {:x})", &tags[1..], tags[0])
}

fn render<T: std::fmt::Debug>(r: zbus::Result<T>) -> String {
    match r {
        Ok(v) => format!("Ok({v:?})"),
        Err(_) => "Err".into(),
    }
}

fn gen_op(rng: &mut Rng, stateless_only: bool, allow_set_quiet: bool) -> MOp {
    let s = |rng: &mut Rng| rng.pick(&["", "x", "hello", "zwei wörter"]).to_string();
    let n = if stateless_only { 11 } else { 20 };
    loop {
        let op = match rng.below(n) {
            0 => MOp::Add(*rng.pick(&[0, 1, -1, i32::MAX, i32::MIN, 77]), *rng.pick(&[0, 1, -1, i32::MAX, 1000])),
            1 => MOp::Concat(s(rng), s(rng)),
            2 => MOp::Half(*rng.pick(&[0u32, 1, 2, 7, 100, u32::MAX])),
            3 => MOp::Pair(rng.below(256) as u8, rng.chance(1, 2)),
            4 => MOp::Nothing,
            5 => MOp::Sum((0..rng.below(5)).map(|_| rng.below(65536) as u16).collect()),
            6 => MOp::Count((0..rng.below(4)).map(|i| (format!("k{i}"), rng.below(100) as u32)).collect()),
            7 => MOp::Describe(rng.below(4) as u8),
            8 => MOp::Checked(*rng.pick(&[-3i16, 0, 5, 1000, 1001, i16::MAX])),
            9 => MOp::Wide(rng.below(256) as u8, *rng.pick(&[0i64, -5, i64::MAX, 1 << 33]), rng.below(100) as u32, s(rng), rng.below(1000) as u32, s(rng)),
            10 => MOp::SwapFds(rng.below(4) as u8),
            11 => MOp::Bump(rng.below(1000)),
            12 => MOp::GetLabel,
            13 => MOp::SetLabel(s(rng)),
            14 => MOp::GetLevel,
            15 => MOp::SetLevel(*rng.pick(&[0u32, 5, 100, 101, 5000])),
            16 => MOp::GetQuiet,
            17 => MOp::SetQuiet(rng.below(60000) as u16),
            18 => MOp::GetFixed,
            _ => MOp::GetCounter,
        };
        if matches!(op, MOp::SetQuiet(_)) && !allow_set_quiet {
            continue;
        }
        return op;
    }
}

impl Scenario for C33Scn {
    fn id(&self) -> &'static str {
        "C33"
    }
    fn rule(&self) -> &'static str {
        "over a pair of real connections the corpus interface (11 methods with integers, strings, tuples, arrays, dicts, variants, nested structs, fallible and custom-error returns; properties of every mode; one signal) is driven through its macro-generated proxies: an async proxy on a task (0..8 operations incl. property reads/writes and a method that takes 1..4 file descriptors and returns them in another order, with or without the property cache) and a blocking proxy on a real thread parked and released by the simulator (0..5 method calls), both with seeded argument values; in addition 0..4 async and 0..3 blocking calls go through the macro-generated proxies of the 16 generated interfaces (signatures drawn from the type grammar; echo handlers; values seeded) and each result must equal what was sent (or the error the handler was asked for), each call reaching exactly its handler once; the server emits 0..3 signals once both are subscribed; oracle: every result equals a typed model of the handlers, the handler log equals the calls made (argument values included), property reads follow the writes, both signal streams yield exactly the emitted arguments in order, and a second pair of streams filtered on the signal's second argument (receive_tick_with_args) yields exactly the matching ones; non-trivial = the async and the blocking client both made calls, or a property was written and read back"
    }
    fn runs(&self, tier: Tier) -> u64 {
        match tier {
            Tier::Quick => 3_000,
            Tier::Thorough => 150_000,
        }
    }
    fn real(&self) -> Vec<&'static str> {
        vec!["code generated by #[zbus::proxy] (async and blocking) and #[zbus::interface]", "Proxy / blocking::Proxy, property cache, SignalStream / blocking SignalIterator", "zbus::block_on on a simulator-driven thread", "object server dispatch", "two real connections"]
    }
    fn stubbed(&self) -> Vec<&'static str> {
        vec!["OS sockets", "executor (seeded scheduler)", "thread scheduling for the blocking client (baton)", "clock"]
    }
    fn assumptions(&self) -> Vec<&'static str> {
        vec!["the generated family of interface/proxy pairs is fixed per build (macro expansion happens at compile time; tools/gen_corpus.py --seed N regenerates it), and generated interfaces have methods only: properties and signals are covered by the hand-written pair", "with the property cache on, a read follows a write only after 1 ms of simulated time, and the property that does not emit changes is not written"]
    }

    fn generate(&self, rng: &mut Rng, _idx: u64, _tier: Tier) -> (SchedCfg, Value) {
        let cached = rng.chance(1, 2);
        let async_ops = (0..rng.below(9)).map(|_| gen_op(rng, false, !cached)).collect();
        let blocking_ops = (0..rng.below(6)).map(|_| gen_op(rng, true, false)).collect();
        let signals = (0..rng.below(4)).map(|i| (rng.below(1000) as u32, format!("tick-{i}"))).collect();
        let sched = SchedCfg::generate(rng, &["async-client", "socket reader", "method dispatcher"]);
        let gen_call = |rng: &mut Rng| {
            let k = rng.below(corpus_gen::N_IFACES as u64) as usize;
            (k, rng.below(corpus_gen::n_methods(k) as u64) as usize, rng.next_u64() >> 12)
        };
        let gen_async = (0..rng.below(5)).map(|_| gen_call(rng)).collect();
        let gen_blocking = (0..rng.below(4)).map(|_| gen_call(rng)).collect();
        let with_props: Vec<usize> = (0..corpus_gen::N_IFACES).filter(|k| corpus_gen::n_props(*k) > 0).collect();
        let with_sigs: Vec<usize> = (0..corpus_gen::N_IFACES).filter(|k| corpus_gen::n_signals(*k) > 0).collect();
        let mut gen_handles: Vec<(u8, usize, usize, bool, bool)> = vec![];
        for _ in 0..rng.below(6) {
            let shared = rng.chance(1, 2);
            let k = *rng.pick(&with_props);
            // on the shared object prefer the name every interface has, so that names collide
            let pi = if shared && rng.chance(1, 2) { 0 } else { rng.below(corpus_gen::n_props(k) as u64) as usize };
            let who = if rng.chance(2, 3) { 0u8 } else { 1 };
            if gen_handles.iter().any(|h| h.0 != who && (h.1, h.2, h.3) == (k, pi, shared)) {
                continue;
            }
            gen_handles.push((who, k, pi, shared, who == 0 && rng.chance(1, 2)));
        }
        let mut gen_prop_ops: Vec<(usize, Option<u64>)> = vec![];
        if !gen_handles.is_empty() {
            for _ in 0..rng.below(9) {
                let h = rng.usize(gen_handles.len());
                let access = corpus_gen::PROPS.iter().filter(|t| t.0 == gen_handles[h].1).nth(gen_handles[h].2).unwrap().4;
                let write = match access {
                    "read" => false,
                    "write" => true,
                    _ => rng.chance(1, 2),
                };
                gen_prop_ops.push((h, if write { Some(rng.next_u64() >> 12) } else { None }));
            }
        }
        let mut gen_signals: Vec<(usize, usize, u64, u8)> = vec![];
        for _ in 0..rng.below(4) {
            let k = *rng.pick(&with_sigs);
            let si = rng.below(corpus_gen::n_signals(k) as u64) as usize;
            if !gen_signals.iter().any(|e| (e.0, e.1) == (k, si)) {
                gen_signals.push((k, si, rng.next_u64() >> 12, rng.below(2) as u8));
            }
        }
        (sched, j(&P { async_ops, blocking_ops, cached, signals, link: gen_read_cfg(rng), gen_async, gen_blocking, gen_handles, gen_prop_ops, gen_signals }))
    }

    fn shrink(&self, body: &Value) -> Vec<Value> {
        let p: P = unj(body);
        let mut out = vec![];
        for v in drop_candidates(&p.async_ops) {
            let mut q = p.clone();
            q.async_ops = v;
            out.push(j(&q));
        }
        for v in drop_candidates(&p.blocking_ops) {
            let mut q = p.clone();
            q.blocking_ops = v;
            out.push(j(&q));
        }
        for v in drop_candidates(&p.signals) {
            let mut q = p.clone();
            q.signals = v;
            out.push(j(&q));
        }
        for v in drop_candidates(&p.gen_async) {
            let mut q = p.clone();
            q.gen_async = v;
            out.push(j(&q));
        }
        for v in drop_candidates(&p.gen_blocking) {
            let mut q = p.clone();
            q.gen_blocking = v;
            out.push(j(&q));
        }
        for v in drop_candidates(&p.gen_prop_ops) {
            let mut q = p.clone();
            q.gen_prop_ops = v;
            out.push(j(&q));
        }
        // drop one handle no operation refers to
        for h in 0..p.gen_handles.len() {
            if !p.gen_prop_ops.iter().any(|o| o.0 == h) {
                let mut q = p.clone();
                q.gen_handles.remove(h);
                for o in &mut q.gen_prop_ops {
                    if o.0 > h {
                        o.0 -= 1;
                    }
                }
                out.push(j(&q));
            }
        }
        for v in drop_candidates(&p.gen_signals) {
            let mut q = p.clone();
            q.gen_signals = v;
            out.push(j(&q));
        }
        for f in [|q: &mut P| q.link = LinkCfg::default(), |q: &mut P| q.cached = false] {
            let mut q = p.clone();
            f(&mut q);
            if q != p {
                out.push(j(&q));
            }
        }
        out
    }

    fn run(&self, w: &World, body: &Value) -> Verdict {
        let p: P = unj(body);
        let (sa, sb) = sim_socket_pair(w, p.link.clone(), p.link.clone(), SockCfg::default(), SockCfg::default());
        let log = new_log();
        let conns = shared(None::<(Connection, Connection)>);
        let (c2, l2, ww) = (conns.clone(), log.clone(), w.clone());
        let setup = w.spawn("setup", async move {
            let a = zbus::connection::Builder::authenticated_socket(sa, crate::peers::GUID).unwrap().p2p().internal_executor(false).serve_at("/a", A::new(&l2, &ww, 0)).unwrap();
            let a = corpus_gen::serve_shared(corpus_gen::serve_all(a, &l2, &ww).unwrap(), &l2, &ww).unwrap().build().await;
            let b = zbus::connection::Builder::authenticated_socket(sb, crate::peers::GUID).unwrap().p2p().internal_executor(false).build().await;
            if let (Ok(a), Ok(b)) = (a, b) {
                *c2.lock().unwrap() = Some((a, b));
            }
        });
        w.run();
        drop(setup);
        let Some((server, client)) = conns.lock().unwrap().take() else { return Verdict::harness("pair did not build") };

        // results: (who, op index, expected, got)
        let mismatches = shared(Vec::<String>::new());
        let subscribed = shared((false, false));
        let got_async = shared(Vec::<(u32, String)>::new());
        let got_blocking = shared(Vec::<(u32, String)>::new());
        // streams filtered on the signal's second argument (`receive_tick_with_args(&[(1, "tick-1")])`)
        let got_async_filtered = shared(Vec::<(u32, String)>::new());
        let got_blocking_filtered = shared(Vec::<(u32, String)>::new());
        let failures = shared(Vec::<String>::new());
        // (interface, member, canonical arguments) of every generated call / property write made
        let sent_log = shared(Vec::<(String, String, String)>::new());
        let gen_sig_seen = shared(0usize);

        // ---- async client ----
        let gaf = got_async_filtered.clone();
        let (cl, ops, cached, mm, sub, ga, fl, ww, gens, gprops, gsigs, sl, seen) = (client.clone(), p.async_ops.clone(), p.cached, mismatches.clone(), subscribed.clone(), got_async.clone(), failures.clone(), w.clone(), p.gen_async.clone(), (p.gen_handles.clone(), p.gen_prop_ops.clone()), p.gen_signals.clone(), sent_log.clone(), gen_sig_seen.clone());
        let async_client = w.spawn("async-client", async move {
            let px = match SimAProxy::builder(&cl).cache_properties(if cached { zbus::proxy::CacheProperties::Lazily } else { zbus::proxy::CacheProperties::No }).build().await {
                Ok(p) => p,
                Err(e) => {
                    fl.lock().unwrap().push(format!("async proxy build: {e}"));
                    return;
                }
            };
            let (ghandles, gpops) = gprops;
            let mut handles = std::collections::BTreeMap::new();
            for (h, (who, k, pi, shared, hcached)) in ghandles.iter().enumerate() {
                if *who != 0 {
                    continue;
                }
                let path = if *shared { corpus_gen::SHARED.to_string() } else { format!("/g{k}") };
                match corpus_gen::open_prop_async(&cl, *k, *pi, &path, *hcached).await {
                    Ok(hd) => {
                        handles.insert(h, hd);
                    }
                    Err(e) => {
                        fl.lock().unwrap().push(format!("async generated proxy I{k} at {path}: {e}"));
                        return;
                    }
                }
            }
            let mut ticks = match px.receive_tick().await {
                Ok(s) => s,
                Err(e) => {
                    fl.lock().unwrap().push(format!("async receive_tick: {e}"));
                    return;
                }
            };
            let mut waiters = vec![];
            for (i, (k, si, seed, who)) in gsigs.iter().enumerate() {
                if *who != 0 {
                    continue;
                }
                match corpus_gen::subscribe_async(&cl, *k, *si).await {
                    Ok(wait) => {
                        let (mm, seen, k, si, seed) = (mm.clone(), seen.clone(), *k, *si, *seed);
                        waiters.push(ww.spawn("async-gen-signal", async move {
                            if let Some(e) = wait(seed).await {
                                mm.lock().unwrap().push(format!("async gensig {i} I{k}.S{si}: {e}"));
                            }
                            *seen.lock().unwrap() += 1;
                        }));
                    }
                    Err(e) => {
                        fl.lock().unwrap().push(format!("async subscribe to generated signal I{k}.S{si}: {e}"));
                        return;
                    }
                }
            }
            let mut filtered = match px.receive_tick_with_args(&[(1, "tick-1")]).await {
                Ok(s) => s,
                Err(e) => {
                    fl.lock().unwrap().push(format!("async receive_tick_with_args: {e}"));
                    return;
                }
            };
            let filtered_consumer = ww.spawn("async-filtered-signal-consumer", async move {
                while let Some(t) = filtered.next().await {
                    if let Ok(a) = t.args() {
                        gaf.lock().unwrap().push((a.n, a.what.to_string()));
                    }
                }
            });
            sub.lock().unwrap().0 = true;
            let consumer = ww.spawn("async-signal-consumer", async move {
                while let Some(t) = ticks.next().await {
                    if let Ok(a) = t.args() {
                        ga.lock().unwrap().push((a.n, a.what.to_string()));
                    }
                }
            });
            // property model
            let (mut label, mut level, mut quiet, mut counter) = ("label-0".to_string(), 1u32, 7u16, 0u64);
            for (i, op) in ops.iter().enumerate() {
                let (want, got): (String, String) = if let Some((_, _, want)) = expect_stateless(op) {
                    let got = match op {
                        MOp::Add(a, b) => render(px.add(*a, *b).await),
                        MOp::Concat(a, b) => render(px.concat(a, b).await),
                        MOp::Half(v) => render(px.half(*v).await),
                        MOp::Pair(a, b) => render(px.pair(*a, *b).await),
                        MOp::Nothing => render(px.nothing().await),
                        MOp::Sum(v) => render(px.sum(v).await),
                        MOp::Count(m) => render(px.count(m.iter().cloned().collect()).await),
                        MOp::Describe(k) => render(px.describe(&describe_value(*k)).await),
                        MOp::Checked(v) => render(px.checked(*v).await),
                        MOp::Wide(a, b, c, d, e0, e1) => render(px.wide(*a, *b, *c as f64 / 4.0, d, (*e0, e1)).await),
                        _ => unreachable!(),
                    };
                    (want, got)
                } else {
                    match op {
                        MOp::Bump(by) => {
                            counter = counter.wrapping_add(*by);
                            (format!("Ok({counter})"), render(px.bump(*by).await))
                        }
                        MOp::SwapFds(n) => {
                            let tags = fd_tags(0, i, *n);
                            let fds: Vec<std::os::fd::OwnedFd> = tags.iter().map(|t| crate::net::make_fd(*t)).collect();
                            use std::os::fd::AsFd;
                            let r = px.swap_fds(zvariant::Fd::from(fds[0].as_fd()), fds[1..].iter().map(|f| zvariant::Fd::from(f.as_fd())).collect()).await;
                            (want_fds(&tags), render_fds(r))
                        }
                        MOp::GetLabel => (format!("Ok({label:?})"), render(px.label().await)),
                        MOp::SetLabel(v) => {
                            label = v.clone();
                            let r = render(px.set_label(v).await);
                            if cached {
                                ww.sleep_ns(1_000_000).await;
                            }
                            ("Ok(())".into(), r)
                        }
                        MOp::GetLevel => (format!("Ok({level})"), render(px.level().await)),
                        MOp::SetLevel(v) => {
                            let r = render(px.set_level(*v).await);
                            if cached {
                                ww.sleep_ns(1_000_000).await;
                            }
                            if *v > 100 {
                                ("Err".into(), r)
                            } else {
                                level = *v;
                                ("Ok(())".into(), r)
                            }
                        }
                        MOp::GetQuiet => (format!("Ok({quiet})"), render(px.quiet().await)),
                        MOp::SetQuiet(v) => {
                            quiet = *v;
                            ("Ok(())".into(), render(px.set_quiet(*v).await))
                        }
                        MOp::GetFixed => ("Ok(42)".into(), render(px.fixed().await)),
                        MOp::GetCounter => {
                            // `Counter` emits no change on Bump: only comparable without the cache
                            let r = render(px.counter().await);
                            if cached {
                                (r.clone(), r)
                            } else {
                                (format!("Ok({counter})"), r)
                            }
                        }
                        _ => unreachable!(),
                    }
                };
                if want != got {
                    mm.lock().unwrap().push(format!("async op {i} {op:?}: expected {want}, got {got}"));
                }
            }
            for (i, (k, m, seed)) in gens.iter().enumerate() {
                let mut r = Rng::new(*seed);
                match corpus_gen::drive_async(&cl, *k, *m, &mut r).await {
                    Ok((sent, bad)) => {
                        sl.lock().unwrap().push((format!("org.gen.I{k}"), format!("M{m}"), sent));
                        if let Some(e) = bad {
                            mm.lock().unwrap().push(format!("async gen {i} I{k}.M{m}: {e}"));
                        }
                    }
                    Err(e) => mm.lock().unwrap().push(format!("async gen {i} I{k}.M{m}: proxy build failed: {e}")),
                }
            }
            let any_cached = ghandles.iter().any(|h| h.0 == 0 && h.4);
            let mut model: std::collections::BTreeMap<(bool, usize, usize), String> = Default::default();
            for (i, (h, write)) in gpops.iter().enumerate() {
                let Some(hd) = handles.get(h) else { continue };
                let (_, k, pi, shared, _) = ghandles[*h];
                let at = if shared { "shared" } else { "own" };
                match write {
                    Some(seed) => match (hd.set)(*seed).await {
                        Ok(c) => {
                            sl.lock().unwrap().push((format!("org.gen.I{k}"), format!("SetP{pi}"), c.clone()));
                            model.insert((shared, k, pi), c);
                            if any_cached {
                                ww.sleep_ns(1_000_000).await;
                            }
                        }
                        Err(e) => mm.lock().unwrap().push(format!("async genprop {i} I{k}.P{pi}@{at}: write failed: {e}")),
                    },
                    None => {
                        let want = model.get(&(shared, k, pi)).cloned().unwrap_or_else(|| corpus_gen::initial_canon(k)[pi].clone());
                        match (hd.get)().await {
                            Ok(c) if c == want => {}
                            other => mm.lock().unwrap().push(format!("async genprop {i} I{k}.P{pi}@{at}: the server holds {want}, the proxy read {other:?}")),
                        }
                    }
                }
            }
            for t in waiters {
                t.await;
            }
            consumer.await;
            filtered_consumer.await;
        });

        // ---- blocking client on a baton thread ----
        let gbf = got_blocking_filtered.clone();
        let nfiltered = p.signals.iter().filter(|s| s.1 == "tick-1").count();
        let (cl, ops, mm, sub, gb, fl, nsig, gens, gprops, gsigs, sl, seen) = (client.clone(), p.blocking_ops.clone(), mismatches.clone(), subscribed.clone(), got_blocking.clone(), failures.clone(), p.signals.len(), p.gen_blocking.clone(), (p.gen_handles.clone(), p.gen_prop_ops.clone()), p.gen_signals.clone(), sent_log.clone(), gen_sig_seen.clone());
        w.spawn_thread("blocking-client", move || {
            let bconn = zbus::blocking::Connection::from(cl);
            let px = match SimAProxyBlocking::builder(&bconn).cache_properties(zbus::proxy::CacheProperties::No).build() {
                Ok(p) => p,
                Err(e) => {
                    fl.lock().unwrap().push(format!("blocking proxy build: {e}"));
                    return;
                }
            };
            let (ghandles, gpops) = gprops;
            let mut handles = std::collections::BTreeMap::new();
            for (h, (who, k, pi, shared, _)) in ghandles.iter().enumerate() {
                if *who != 1 {
                    continue;
                }
                let path = if *shared { corpus_gen::SHARED.to_string() } else { format!("/g{k}") };
                match corpus_gen::open_prop_blocking(&bconn, *k, *pi, &path) {
                    Ok(hd) => {
                        handles.insert(h, hd);
                    }
                    Err(e) => {
                        fl.lock().unwrap().push(format!("blocking generated proxy I{k} at {path}: {e}"));
                        return;
                    }
                }
            }
            let mut ticks = match px.receive_tick() {
                Ok(s) => s,
                Err(e) => {
                    fl.lock().unwrap().push(format!("blocking receive_tick: {e}"));
                    return;
                }
            };
            let mut waiters = vec![];
            for (i, (k, si, seed, who)) in gsigs.iter().enumerate() {
                if *who != 1 {
                    continue;
                }
                match corpus_gen::subscribe_blocking(&bconn, *k, *si) {
                    Ok(wait) => waiters.push((i, *k, *si, *seed, wait)),
                    Err(e) => {
                        fl.lock().unwrap().push(format!("blocking subscribe to generated signal I{k}.S{si}: {e}"));
                        return;
                    }
                }
            }
            let mut filtered = match px.receive_tick_with_args(&[(1, "tick-1")]) {
                Ok(s) => s,
                Err(e) => {
                    fl.lock().unwrap().push(format!("blocking receive_tick_with_args: {e}"));
                    return;
                }
            };
            sub.lock().unwrap().1 = true;
            for (i, op) in ops.iter().enumerate() {
                if let MOp::SwapFds(n) = op {
                    use std::os::fd::AsFd;
                    let tags = fd_tags(1, i, *n);
                    let fds: Vec<std::os::fd::OwnedFd> = tags.iter().map(|t| crate::net::make_fd(*t)).collect();
                    let got = render_fds(px.swap_fds(zvariant::Fd::from(fds[0].as_fd()), fds[1..].iter().map(|f| zvariant::Fd::from(f.as_fd())).collect()));
                    if got != want_fds(&tags) {
                        mm.lock().unwrap().push(format!("blocking op {i} {op:?}: expected {}, got {got}", want_fds(&tags)));
                    }
                    continue;
                }
                let Some((_, _, want)) = expect_stateless(op) else { continue };
                let got = match op {
                    MOp::Add(a, b) => render(px.add(*a, *b)),
                    MOp::Concat(a, b) => render(px.concat(a, b)),
                    MOp::Half(v) => render(px.half(*v)),
                    MOp::Pair(a, b) => render(px.pair(*a, *b)),
                    MOp::Nothing => render(px.nothing()),
                    MOp::Sum(v) => render(px.sum(v)),
                    MOp::Count(m) => render(px.count(m.iter().cloned().collect())),
                    MOp::Describe(k) => render(px.describe(&describe_value(*k))),
                    MOp::Checked(v) => render(px.checked(*v)),
                    MOp::Wide(a, b, c, d, e0, e1) => render(px.wide(*a, *b, *c as f64 / 4.0, d, (*e0, e1))),
                    _ => continue,
                };
                if want != got {
                    mm.lock().unwrap().push(format!("blocking op {i} {op:?}: expected {want}, got {got}"));
                }
            }
            for (i, (k, m, seed)) in gens.iter().enumerate() {
                let mut r = Rng::new(*seed);
                match corpus_gen::drive_blocking(&bconn, *k, *m, &mut r) {
                    Ok((sent, bad)) => {
                        sl.lock().unwrap().push((format!("org.gen.I{k}"), format!("M{m}"), sent));
                        if let Some(e) = bad {
                            mm.lock().unwrap().push(format!("blocking gen {i} I{k}.M{m}: {e}"));
                        }
                    }
                    Err(e) => mm.lock().unwrap().push(format!("blocking gen {i} I{k}.M{m}: proxy build failed: {e}")),
                }
            }
            let mut model: std::collections::BTreeMap<(bool, usize, usize), String> = Default::default();
            for (i, (h, write)) in gpops.iter().enumerate() {
                let Some(hd) = handles.get(h) else { continue };
                let (_, k, pi, shared, _) = ghandles[*h];
                let at = if shared { "shared" } else { "own" };
                match write {
                    Some(seed) => match (hd.set)(*seed) {
                        Ok(c) => {
                            sl.lock().unwrap().push((format!("org.gen.I{k}"), format!("SetP{pi}"), c.clone()));
                            model.insert((shared, k, pi), c);
                        }
                        Err(e) => mm.lock().unwrap().push(format!("blocking genprop {i} I{k}.P{pi}@{at}: write failed: {e}")),
                    },
                    None => {
                        let want = model.get(&(shared, k, pi)).cloned().unwrap_or_else(|| corpus_gen::initial_canon(k)[pi].clone());
                        match (hd.get)() {
                            Ok(c) if c == want => {}
                            other => mm.lock().unwrap().push(format!("blocking genprop {i} I{k}.P{pi}@{at}: the server holds {want}, the proxy read {other:?}")),
                        }
                    }
                }
            }
            for _ in 0..nsig {
                match ticks.next() {
                    Some(t) => {
                        if let Ok(a) = t.args() {
                            gb.lock().unwrap().push((a.n, a.what.to_string()));
                        }
                    }
                    None => break,
                }
            }
            for _ in 0..nfiltered {
                match filtered.next() {
                    Some(t) => {
                        if let Ok(a) = t.args() {
                            gbf.lock().unwrap().push((a.n, a.what.to_string()));
                        }
                    }
                    None => break,
                }
            }
            for (i, k, si, seed, wait) in waiters {
                if let Some(e) = wait(seed) {
                    mm.lock().unwrap().push(format!("blocking gensig {i} I{k}.S{si}: {e}"));
                }
                *seen.lock().unwrap() += 1;
            }
        });

        w.run();
        if let Some(e) = failures.lock().unwrap().first() {
            return Verdict::fail("setup", "proxy-setup-failed", e.clone());
        }
        let subs = *subscribed.lock().unwrap();
        if !(subs.0 && subs.1) {
            return Verdict::fail("hang", "subscription-never-completed", format!("signal subscription did not complete (async, blocking) = {subs:?}"));
        }
        // ---- server emits the signals ----
        let (sv, sigs, gsigs) = (server.clone(), p.signals.clone(), p.gen_signals.clone());
        let emit_err = shared(None::<String>);
        let ee = emit_err.clone();
        let emitter = w.spawn("emitter", async move {
            let r: zbus::Result<()> = async {
                let iface = sv.object_server().interface::<_, A>("/a").await?;
                for (n, what) in &sigs {
                    A::tick(iface.signal_emitter(), *n, what).await?;
                }
                for (k, si, seed, _) in &gsigs {
                    corpus_gen::emit_signal(&sv, *k, *si, *seed).await?;
                }
                Ok(())
            }
            .await;
            if let Err(e) = r {
                *ee.lock().unwrap() = Some(e.to_string());
            }
        });
        w.run();
        drop(emitter);
        if let Some(e) = emit_err.lock().unwrap().take() {
            return Verdict::fail("emit", "signal-emission-failed", e);
        }
        let unfinished = w.threads_unfinished();
        let mm = mismatches.lock().unwrap().clone();
        let ga = got_async.lock().unwrap().clone();
        let gb = got_blocking.lock().unwrap().clone();
        let log_v = log.lock().unwrap().clone();
        drop(async_client);
        drop(server);
        drop(client);

        if let Some(m) = mm.first() {
            let who = if m.starts_with("async") { "async" } else { "blocking" };
            let member = m.split_whitespace().nth(3).unwrap_or("").split(['(', ':']).next().unwrap_or("").to_string();
            return Verdict::fail("value", format!("{who}-{member}"), m.clone());
        }
        if unfinished > 0 {
            return Verdict::fail("hang", "blocking-client-stuck", format!("the blocking client never finished (received {} of {} signals)", gb.len(), p.signals.len()));
        }
        if ga != p.signals {
            return Verdict::fail("signal", "async-stream-differs", format!("emitted {:?}, async stream yielded {ga:?}", p.signals));
        }
        if gb != p.signals {
            return Verdict::fail("signal", "blocking-iterator-differs", format!("emitted {:?}, blocking iterator yielded {gb:?}", p.signals));
        }
        let want_filtered: Vec<(u32, String)> = p.signals.iter().filter(|s| s.1 == "tick-1").cloned().collect();
        let gaf = got_async_filtered.lock().unwrap().clone();
        let gbf = got_blocking_filtered.lock().unwrap().clone();
        if gaf != want_filtered {
            return Verdict::fail("signal", "async-filtered-stream-differs", format!("emitted {:?}; the stream filtered on argument 1 == \"tick-1\" yielded {gaf:?}", p.signals));
        }
        if gbf != want_filtered {
            return Verdict::fail("signal", "blocking-filtered-iterator-differs", format!("emitted {:?}; the iterator filtered on argument 1 == \"tick-1\" yielded {gbf:?}", p.signals));
        }
        if !want_filtered.is_empty() {
            w.count("probe.signal_matched_an_argument_filter");
        }
        // handler log == calls made
        let mut want_log: Vec<(String, String)> = p.async_ops.iter().chain(p.blocking_ops.iter()).filter_map(|o| expect_stateless(o).map(|(m, a, _)| (m.to_string(), a))).collect();
        want_log.extend(p.async_ops.iter().filter_map(|o| if let MOp::Bump(b) = o { Some(("Bump".to_string(), format!("{b}"))) } else { None }));
        for (who, ops) in [(0u64, &p.async_ops), (1, &p.blocking_ops)] {
            want_log.extend(ops.iter().enumerate().filter_map(|(i, o)| if let MOp::SwapFds(n) = o { Some(("SwapFds".to_string(), format!("{:x?}", fd_tags(who, i, *n)))) } else { None }));
        }
        let mut got_log: Vec<(String, String)> = log_v.iter().filter(|e| e.iface == "org.sim.A").map(|e| (e.member.to_string(), e.args.clone())).collect();
        want_log.sort();
        got_log.sort();
        if want_log != got_log {
            let extra: Vec<_> = got_log.iter().filter(|g| !want_log.contains(g)).collect();
            let missing: Vec<_> = want_log.iter().filter(|g| !got_log.contains(g)).collect();
            return Verdict::fail("args", "handler-saw-different-arguments", format!("handler log differs from the calls made: unexpected {extra:?}, missing {missing:?}"));
        }
        // generated interfaces: every call made reached exactly its handler, once
        let mut want_gen = sent_log.lock().unwrap().clone();
        let mut got_gen: Vec<(String, String, String)> = log_v.iter().filter(|e| e.iface.starts_with("org.gen.")).map(|e| (e.iface.to_string(), e.member.to_string(), e.args.clone())).collect();
        want_gen.sort();
        got_gen.sort();
        if want_gen != got_gen {
            let extra: Vec<_> = got_gen.iter().filter(|g| !want_gen.contains(g)).collect();
            let missing: Vec<_> = want_gen.iter().filter(|g| !got_gen.contains(g)).collect();
            let disc = missing.first().or(extra.first()).map(|e| format!("{}.{}", e.0.trim_start_matches("org.gen."), e.1)).unwrap_or_default();
            return Verdict::fail("args", format!("generated-handler-saw-different-arguments-{disc}"), format!("generated handlers' log differs from the calls made: unexpected {extra:?}, missing {missing:?}"));
        }
        let seen = *gen_sig_seen.lock().unwrap();
        if seen != p.gen_signals.len() {
            return Verdict::fail("signal", "generated-signal-not-received", format!("{} generated signals emitted, {seen} arrived at their subscribers", p.gen_signals.len()));
        }
        if p.async_ops.iter().chain(p.blocking_ops.iter()).any(|o| matches!(o, MOp::SwapFds(n) if *n > 0)) {
            w.count("probe.method_with_several_fds_called");
        }
        if !p.gen_async.is_empty() && !p.gen_blocking.is_empty() {
            w.count("probe.generated_async_and_blocking_called");
        }
        w.count_n("probe.generated_property_operations", p.gen_prop_ops.len() as u64);
        // two live proxies for different interfaces of one object whose properties share a name, one of them written
        let collide = p.gen_handles.iter().enumerate().any(|(a, ha)| ha.3 && p.gen_handles.iter().enumerate().any(|(b, hb)| a != b && hb.3 && hb.1 != ha.1 && hb.2 == ha.2 && p.gen_prop_ops.iter().any(|o| o.0 == b && o.1.is_some())));
        if collide {
            w.count("probe.same_named_property_of_another_interface_written");
        }
        w.count_n("probe.generated_signals_received", seen as u64);
        let both = p.async_ops.iter().any(|o| expect_stateless(o).is_some()) && !p.blocking_ops.is_empty();
        let wrote = p.async_ops.iter().any(|o| matches!(o, MOp::SetLabel(_) | MOp::SetLevel(_) | MOp::SetQuiet(_)));
        if both {
            w.count("probe.async_and_blocking_clients_called");
        }
        Verdict::ok(both || wrote)
    }
}
