//! Simulated stream transport plugged into zbus's public `Socket`/`ReadHalf`/`WriteHalf` seam.
//!
//! One `Link` is one direction of a stream socket: an ordered byte queue with fd groups attached
//! at byte offsets (SCM_RIGHTS semantics), optional delivery latency, a bounded send buffer, and a
//! fault plan (EOF / error at an inbound byte offset, error at the n-th write call, corruption).
use std::{
    collections::VecDeque,
    future::Future,
    io,
    os::fd::{AsFd, BorrowedFd, OwnedFd},
    pin::Pin,
    sync::{Arc, Mutex},
    task::{Context, Poll, Waker},
};

use serde::{Deserialize, Serialize};
use zbus::{
    connection::{
        socket::{ReadHalf, Socket, Split, WriteHalf},
        AuthMechanism,
    },
    fdo::ConnectionCredentials,
};

use crate::kernel::World;

/// How reads are split.
#[derive(Clone, Copy, Debug, Serialize, Deserialize, PartialEq, Eq)]
pub enum Chunking {
    /// Everything that is available (up to the buffer size).
    Whole,
    /// One byte at a time.
    OneByte,
    /// At most `n` bytes at a time.
    Max(u16),
    /// A seeded size in `1..=available` on every call.
    Random,
    /// Explicit cut points (absolute stream offsets); reads never cross one.
    Cuts,
}

#[derive(Clone, Copy, Debug, Serialize, Deserialize, PartialEq, Eq)]
pub enum ErrKind {
    Reset,
    Pipe,
}

impl ErrKind {
    fn to_io(self) -> io::Error {
        match self {
            ErrKind::Reset => io::Error::new(io::ErrorKind::ConnectionReset, "simulated ECONNRESET"),
            ErrKind::Pipe => io::Error::new(io::ErrorKind::BrokenPipe, "simulated EPIPE"),
        }
    }
}

#[derive(Clone, Debug, Serialize, Deserialize, PartialEq)]
pub struct LinkCfg {
    pub read_chunking: Chunking,
    pub cuts: Vec<u64>,
    /// Writes through `sendmsg` may be accepted partially (seeded).
    pub partial_writes: bool,
    /// `sendmsg` may return `Pending` once before accepting bytes (seeded).
    pub write_stalls: bool,
    /// Latency unit in ns; each written chunk becomes readable after `choose(lat_steps) * unit`.
    pub latency_unit_ns: u64,
    pub latency_steps: u8,
    /// Send buffer capacity (0 = unbounded).
    pub capacity: usize,
    /// Reader sees EOF once this many bytes were read.
    pub eof_at: Option<u64>,
    /// Reader gets an error once this many bytes were read.
    pub err_at: Option<(u64, ErrKind)>,
    /// The n-th (0-based) `sendmsg` call on this link fails, and every later one.
    pub fail_write_call: Option<(u64, ErrKind)>,
    /// After a successful `sendmsg`/`recvmsg` the future may report `Pending` once before handing
    /// out its result (a preemption right after the system call; cooperative-budget runtimes do
    /// exactly this), seeded per call.
    #[serde(default)]
    pub yield_after_io: bool,
    /// When an injected fault on this link fires, the opposite direction dies too (the whole
    /// socket is gone, not just one half).
    #[serde(default)]
    pub fault_kills_both: bool,
    /// A read may run across several fd-bearing segments (Linux stops after the first one; other
    /// transports behind the public `Socket` trait need not).
    #[serde(default)]
    pub merge_fd_segments: bool,
}

impl Default for LinkCfg {
    fn default() -> Self {
        LinkCfg {
            read_chunking: Chunking::Whole,
            cuts: vec![],
            partial_writes: false,
            write_stalls: false,
            latency_unit_ns: 0,
            latency_steps: 0,
            capacity: 0,
            eof_at: None,
            err_at: None,
            fail_write_call: None,
            yield_after_io: false,
            fault_kills_both: false,
            merge_fd_segments: false,
        }
    }
}

struct Chunk {
    data: VecDeque<u8>,
    fds: Vec<OwnedFd>,
    ready_at: u64,
}

pub struct LinkState {
    cfg: LinkCfg,
    chunks: VecDeque<Chunk>,
    buffered: usize,
    closed: bool,
    dead: Option<ErrKind>,
    pub total_written: u64,
    pub total_read: u64,
    pub write_calls: u64,
    pub read_calls: u64,
    pub reads_after_bytes: Vec<u64>,
    reader: Option<Waker>,
    writer: Option<Waker>,
    stalled_last: bool,
    /// Copy of every byte accepted by `sendmsg` together with fd groups: (offset, n_fds).
    pub captured: Vec<u8>,
    pub captured_fds: Vec<(u64, Vec<u64>)>,
    pub write_sizes: Vec<(u64, usize)>,
    capture: bool,
}

pub struct Link {
    pub name: &'static str,
    world: World,
    pub st: Mutex<LinkState>,
    /// the opposite direction of the same socket
    pub other: Mutex<Option<std::sync::Weak<Link>>>,
}

impl Link {
    pub fn new(world: &World, name: &'static str, cfg: LinkCfg, capture: bool) -> Arc<Link> {
        Arc::new(Link {
            name,
            world: world.clone(),
            other: Mutex::new(None),
            st: Mutex::new(LinkState {
                cfg,
                chunks: VecDeque::new(),
                buffered: 0,
                closed: false,
                dead: None,
                total_written: 0,
                total_read: 0,
                write_calls: 0,
                read_calls: 0,
                reads_after_bytes: vec![],
                reader: None,
                writer: None,
                stalled_last: false,
                captured: vec![],
                captured_fds: vec![],
                write_sizes: vec![],
                capture,
            }),
        })
    }

    /// Append bytes (+fds attached to their first byte); never blocks, never faults: used by
    /// scripted peers.
    pub fn push(&self, bytes: &[u8], fds: Vec<OwnedFd>) {
        if bytes.is_empty() {
            return;
        }
        let now = self.world.now();
        let lat = {
            let st = self.st.lock().unwrap();
            (st.cfg.latency_unit_ns, st.cfg.latency_steps)
        };
        let delay = if lat.0 > 0 && lat.1 > 0 {
            let k = self.world.choose("lat", lat.1 as usize + 1) as u64;
            if k > 0 {
                self.world.count("fault.read_delay");
            }
            k * lat.0
        } else {
            0
        };
        let mut st = self.st.lock().unwrap();
        if st.closed || st.dead.is_some() {
            return;
        }
        // delivery is FIFO: never earlier than the previous chunk
        let prev = st.chunks.back().map(|c| c.ready_at).unwrap_or(0);
        let ready_at = (now + delay).max(prev);
        st.total_written += bytes.len() as u64;
        st.buffered += bytes.len();
        let mergeable = fds.is_empty() && st.chunks.back().map(|c| c.ready_at == ready_at).unwrap_or(false);
        if mergeable {
            st.chunks.back_mut().unwrap().data.extend(bytes.iter().copied());
        } else {
            st.chunks.push_back(Chunk { data: bytes.iter().copied().collect(), fds, ready_at });
        }
        let w = st.reader.take();
        drop(st);
        if let Some(w) = w {
            if ready_at > now {
                self.world.wake_at(ready_at, w);
            } else {
                w.wake();
            }
        }
    }

    /// The writer closes its end: the reader sees EOF after draining.
    pub fn close(&self) {
        let mut st = self.st.lock().unwrap();
        st.closed = true;
        let (r, w) = (st.reader.take(), st.writer.take());
        drop(st);
        r.map(|w| w.wake());
        w.map(|w| w.wake());
    }

    /// The link dies: readers and writers get `kind` from now on, buffered bytes are lost.
    pub fn kill(&self, kind: ErrKind) {
        let mut st = self.st.lock().unwrap();
        st.dead = Some(kind);
        st.chunks.clear();
        st.buffered = 0;
        let (r, w) = (st.reader.take(), st.writer.take());
        drop(st);
        r.map(|w| w.wake());
        w.map(|w| w.wake());
    }

    fn kill_other(&self, kind: ErrKind) {
        let o = self.other.lock().unwrap().as_ref().and_then(|w| w.upgrade());
        if let Some(o) = o {
            if !o.is_closed() {
                o.kill(kind);
            }
        }
    }

    pub fn is_closed(&self) -> bool {
        let st = self.st.lock().unwrap();
        st.closed || st.dead.is_some()
    }

    pub fn set_cfg(&self, f: impl FnOnce(&mut LinkCfg)) {
        let mut st = self.st.lock().unwrap();
        f(&mut st.cfg);
        let (r, w) = (st.reader.take(), st.writer.take());
        drop(st);
        r.map(|w| w.wake());
        w.map(|w| w.wake());
    }

    pub fn unread(&self) -> usize {
        self.st.lock().unwrap().buffered
    }

    /// Is a reader currently parked on this link?
    pub fn reader_waiting(&self) -> bool {
        self.st.lock().unwrap().reader.is_some()
    }

    pub fn drop_wakers(&self) {
        let mut st = self.st.lock().unwrap();
        st.reader = None;
        st.writer = None;
        st.chunks.clear();
    }

    fn poll_read(&self, buf: &mut [u8], cx: &mut Context<'_>) -> Poll<io::Result<(usize, Vec<OwnedFd>)>> {
        let now = self.world.now();
        let mut st = self.st.lock().unwrap();
        st.read_calls += 1;
        if let Some(k) = st.dead {
            return Poll::Ready(Err(k.to_io()));
        }
        if let Some((at, k)) = st.cfg.err_at {
            if st.total_read >= at {
                let both = st.cfg.fault_kills_both;
                drop(st);
                self.world.count("fault.io_error_read");
                self.world.log(|| format!("FAULT {}: read error at offset {at}", self.name));
                if both {
                    self.kill_other(ErrKind::Pipe);
                }
                return Poll::Ready(Err(k.to_io()));
            }
        }
        if let Some(at) = st.cfg.eof_at {
            if st.total_read >= at {
                let both = st.cfg.fault_kills_both;
                drop(st);
                self.world.count("fault.eof");
                self.world.log(|| format!("FAULT {}: EOF at offset {at}", self.name));
                if both {
                    self.kill_other(ErrKind::Pipe);
                }
                return Poll::Ready(Ok((0, vec![])));
            }
        }
        // contiguous ready bytes; like Linux's unix_stream_read_generic, one recvmsg may run from
        // fd-less segments into a segment that carries fds but stops after that segment
        let mut avail = 0usize;
        for c in st.chunks.iter() {
            if c.ready_at > now {
                break;
            }
            avail += c.data.len();
            if !c.fds.is_empty() && !st.cfg.merge_fd_segments {
                break;
            }
        }
        if avail == 0 {
            if st.chunks.is_empty() && st.closed {
                return Poll::Ready(Ok((0, vec![])));
            }
            st.reader = Some(cx.waker().clone());
            if let Some(c) = st.chunks.front() {
                // not yet delivered: wake at delivery time
                let at = c.ready_at;
                let w = st.reader.take().unwrap();
                st.reader = Some(w.clone());
                drop(st);
                self.world.wake_at(at, w);
            }
            return Poll::Pending;
        }
        let mut limit = avail.min(buf.len());
        if let Some(at) = st.cfg.eof_at {
            limit = limit.min((at - st.total_read) as usize);
        }
        if let Some((at, _)) = st.cfg.err_at {
            limit = limit.min((at - st.total_read) as usize);
        }
        let chunking = st.cfg.read_chunking;
        let pos = st.total_read;
        let next_cut = st.cfg.cuts.iter().copied().filter(|c| *c > pos).min();
        drop(st);
        let n = match chunking {
            Chunking::Whole => limit,
            Chunking::OneByte => 1,
            Chunking::Max(m) => limit.min(m as usize).max(1),
            Chunking::Random => limit - self.world.choose("rd", limit),
            Chunking::Cuts => match next_cut {
                Some(c) => limit.min((c - pos) as usize),
                None => limit,
            },
        };
        if n < limit {
            self.world.count("fault.partial_read");
        }
        let mut st = self.st.lock().unwrap();
        let mut fds = vec![];
        let mut got = 0;
        while got < n {
            let c = st.chunks.front_mut().unwrap();
            if !c.fds.is_empty() {
                fds.append(&mut c.fds);
            }
            let take = (n - got).min(c.data.len());
            for (i, b) in c.data.drain(..take).enumerate() {
                buf[got + i] = b;
            }
            got += take;
            if c.data.is_empty() {
                st.chunks.pop_front();
            }
        }
        st.buffered -= n;
        st.total_read += n as u64;
        let tr = st.total_read;
        st.reads_after_bytes.push(tr);
        let w = st.writer.take();
        drop(st);
        w.map(|w| w.wake());
        let nf = fds.len();
        self.world.log(|| format!("{}: read {n} bytes (+{nf} fds) -> offset {tr}", self.name));
        Poll::Ready(Ok((n, fds)))
    }

    fn poll_write(&self, data: &[u8], fds: &[BorrowedFd<'_>], cx: &mut Context<'_>) -> Poll<io::Result<usize>> {
        let mut st = self.st.lock().unwrap();
        let call = st.write_calls;
        if let Some(k) = st.dead {
            return Poll::Ready(Err(k.to_io()));
        }
        if st.closed {
            return Poll::Ready(Err(ErrKind::Pipe.to_io()));
        }
        if let Some((n, k)) = st.cfg.fail_write_call {
            if call >= n {
                st.write_calls += 1;
                let both = st.cfg.fault_kills_both;
                drop(st);
                self.world.count("fault.io_error_write");
                self.world.log(|| format!("FAULT {}: write call {call} fails", self.name));
                if both {
                    self.kill_other(ErrKind::Reset);
                }
                return Poll::Ready(Err(k.to_io()));
            }
        }
        if st.cfg.capacity > 0 && st.buffered >= st.cfg.capacity {
            st.writer = Some(cx.waker().clone());
            drop(st);
            self.world.count("fault.backpressure");
            return Poll::Pending;
        }
        let (stalls, partial, stalled_last) = (st.cfg.write_stalls, st.cfg.partial_writes, st.stalled_last);
        let room = if st.cfg.capacity > 0 { st.cfg.capacity - st.buffered } else { usize::MAX };
        drop(st);
        if stalls && !stalled_last && self.world.choose("ws", 3) == 1 {
            self.st.lock().unwrap().stalled_last = true;
            self.world.count("fault.write_stall");
            self.world.log(|| format!("{}: write stalls", self.name));
            cx.waker().wake_by_ref();
            return Poll::Pending;
        }
        let limit = data.len().min(room);
        let n = if partial && limit > 1 { limit - self.world.choose("wr", limit) } else { limit };
        if n < data.len() {
            self.world.count("fault.partial_write");
        }
        let owned: Vec<OwnedFd> = fds.iter().map(|f| f.try_clone_to_owned().expect("dup fd")).collect();
        {
            let mut st = self.st.lock().unwrap();
            st.stalled_last = false;
            st.write_calls += 1;
            let off = st.captured.len() as u64;
            st.write_sizes.push((off, n));
            if st.capture {
                st.captured.extend_from_slice(&data[..n]);
                if !owned.is_empty() {
                    let tags = owned.iter().map(|f| fd_tag(f.as_fd())).collect();
                    st.captured_fds.push((off, tags));
                }
            }
        }
        let nf = owned.len();
        self.world.log(|| format!("{}: write call {call} accepts {n}/{} bytes (+{nf} fds)", self.name, data.len()));
        self.push(&data[..n], owned);
        Poll::Ready(Ok(n))
    }
}

/// Identity of a simulated fd: the 8-byte tag stored in the memfd.
pub fn fd_tag(fd: BorrowedFd<'_>) -> u64 {
    let mut b = [0u8; 8];
    let r = unsafe { libc::pread(std::os::fd::AsRawFd::as_raw_fd(&fd), b.as_mut_ptr() as *mut _, 8, 0) };
    if r != 8 {
        return u64::MAX;
    }
    u64::from_le_bytes(b)
}

/// A real descriptor whose content is `tag`.
pub fn make_fd(tag: u64) -> OwnedFd {
    use std::os::fd::FromRawFd;
    let name = b"simfd\0";
    let fd = unsafe { libc::memfd_create(name.as_ptr() as *const _, libc::MFD_CLOEXEC) };
    assert!(fd >= 0, "memfd_create failed");
    let b = tag.to_le_bytes();
    let r = unsafe { libc::pwrite(fd, b.as_ptr() as *const _, 8, 0) };
    assert_eq!(r, 8);
    unsafe { OwnedFd::from_raw_fd(fd) }
}

#[derive(Clone, Debug, Serialize, Deserialize, PartialEq)]
pub struct SockCfg {
    pub can_pass_fd: bool,
    pub uid: Option<u32>,
    pub mech_anonymous: bool,
}

impl Default for SockCfg {
    fn default() -> Self {
        SockCfg { can_pass_fd: true, uid: Some(1000), mech_anonymous: false }
    }
}

/// One end of a simulated socket, for zbus.
#[derive(Debug)]
pub struct SimSocket {
    pub rx: Arc<Link>,
    pub tx: Arc<Link>,
    pub cfg: SockCfg,
}

impl std::fmt::Debug for Link {
    fn fmt(&self, f: &mut std::fmt::Formatter<'_>) -> std::fmt::Result {
        write!(f, "Link({})", self.name)
    }
}

/// What both halves share: the socket stays open while either half is alive (like the
/// `Arc<Async<UnixStream>>` halves of a real socket) and closes when the last one is dropped.
#[derive(Debug)]
pub struct SockCore {
    rx: Arc<Link>,
    tx: Arc<Link>,
}

impl Drop for SockCore {
    fn drop(&mut self) {
        self.tx.world.log(|| format!("{}: socket closed (last half dropped)", self.tx.name));
        self.tx.world.count("socket_closed_by_drop");
        self.tx.close();
        self.rx.close();
    }
}

#[derive(Debug)]
pub struct SimRead {
    core: Arc<SockCore>,
    cfg: SockCfg,
}

#[derive(Debug)]
pub struct SimWrite {
    core: Arc<SockCore>,
    cfg: SockCfg,
}

impl Socket for SimSocket {
    type ReadHalf = SimRead;
    type WriteHalf = SimWrite;

    fn split(self) -> Split<SimRead, SimWrite> {
        let core = Arc::new(SockCore { rx: self.rx, tx: self.tx });
        Split::new(SimRead { core: core.clone(), cfg: self.cfg.clone() }, SimWrite { core, cfg: self.cfg })
    }
}

fn creds(cfg: &SockCfg) -> ConnectionCredentials {
    let c = ConnectionCredentials::default();
    match cfg.uid {
        Some(u) => c.set_unix_user_id(u),
        None => c,
    }
}

struct ReadFut<'a> {
    link: &'a Link,
    buf: &'a mut [u8],
    held: Option<io::Result<(usize, Vec<OwnedFd>)>>,
}

impl Link {
    fn post_io_yield(&self) -> bool {
        let on = self.st.lock().unwrap().cfg.yield_after_io;
        if on && self.world.choose("py", 3) == 1 {
            self.world.count("fault.yield_after_io");
            true
        } else {
            false
        }
    }
}

impl Future for ReadFut<'_> {
    type Output = io::Result<(usize, Vec<OwnedFd>)>;
    fn poll(self: Pin<&mut Self>, cx: &mut Context<'_>) -> Poll<Self::Output> {
        let this = self.get_mut();
        if let Some(r) = this.held.take() {
            return Poll::Ready(r);
        }
        match this.link.poll_read(this.buf, cx) {
            Poll::Ready(Ok(r)) if r.0 > 0 && this.link.post_io_yield() => {
                this.held = Some(Ok(r));
                cx.waker().wake_by_ref();
                Poll::Pending
            }
            other => other,
        }
    }
}

struct WriteFut<'a, 'b> {
    link: &'a Link,
    data: &'a [u8],
    fds: &'a [BorrowedFd<'b>],
    held: Option<io::Result<usize>>,
}

impl Future for WriteFut<'_, '_> {
    type Output = io::Result<usize>;
    fn poll(self: Pin<&mut Self>, cx: &mut Context<'_>) -> Poll<Self::Output> {
        let this = self.get_mut();
        if let Some(r) = this.held.take() {
            return Poll::Ready(r);
        }
        match this.link.poll_write(this.data, this.fds, cx) {
            Poll::Ready(Ok(n)) if this.link.post_io_yield() => {
                this.held = Some(Ok(n));
                cx.waker().wake_by_ref();
                Poll::Pending
            }
            other => other,
        }
    }
}

#[async_trait::async_trait]
impl ReadHalf for SimRead {
    async fn recvmsg(&mut self, buf: &mut [u8]) -> io::Result<(usize, Vec<OwnedFd>)> {
        ReadFut { link: &self.core.rx, buf, held: None }.await
    }

    fn can_pass_unix_fd(&self) -> bool {
        self.cfg.can_pass_fd
    }

    async fn peer_credentials(&mut self) -> io::Result<ConnectionCredentials> {
        Ok(creds(&self.cfg))
    }

    fn auth_mechanism(&self) -> AuthMechanism {
        if self.cfg.mech_anonymous {
            AuthMechanism::Anonymous
        } else {
            AuthMechanism::External
        }
    }
}

#[async_trait::async_trait]
impl WriteHalf for SimWrite {
    async fn sendmsg(&mut self, buffer: &[u8], fds: &[BorrowedFd<'_>]) -> io::Result<usize> {
        if !fds.is_empty() && !self.cfg.can_pass_fd {
            return Err(io::Error::new(io::ErrorKind::InvalidInput, "fds not supported"));
        }
        WriteFut { link: &self.core.tx, data: buffer, fds, held: None }.await
    }

    async fn close(&mut self) -> io::Result<()> {
        self.core.tx.world.log(|| format!("{}: shutdown by zbus", self.core.tx.name));
        self.core.tx.close();
        self.core.rx.close();
        Ok(())
    }

    fn can_pass_unix_fd(&self) -> bool {
        self.cfg.can_pass_fd
    }

    async fn peer_credentials(&mut self) -> io::Result<ConnectionCredentials> {
        Ok(creds(&self.cfg))
    }
}

/// The scripted side of a simulated socket.
#[derive(Clone)]
pub struct RawEnd {
    pub rx: Arc<Link>,
    pub tx: Arc<Link>,
}

impl RawEnd {
    /// Read whatever is available (at least one byte); `Ok(empty)` = EOF.
    pub async fn read(&self) -> io::Result<(Vec<u8>, Vec<OwnedFd>)> {
        let mut buf = vec![0u8; 65536];
        let (n, fds) = ReadFut { link: &self.rx, buf: &mut buf, held: None }.await?;
        buf.truncate(n);
        Ok((buf, fds))
    }

    pub fn write(&self, bytes: &[u8]) {
        self.tx.push(bytes, vec![]);
    }

    pub fn write_fds(&self, bytes: &[u8], fds: Vec<OwnedFd>) {
        self.tx.push(bytes, fds);
    }

    pub fn close(&self) {
        self.tx.close();
    }

    /// Peer process dies: both directions end.
    pub fn crash(&self) {
        self.tx.close();
        self.rx.kill(ErrKind::Pipe);
    }
}

/// A connected pair: `(socket for zbus, scripted end)`.
pub fn sim_pair(world: &World, to_zbus: LinkCfg, from_zbus: LinkCfg, sock: SockCfg) -> (SimSocket, RawEnd) {
    let a = Link::new(world, "peer->zbus", to_zbus, false);
    let b = Link::new(world, "zbus->peer", from_zbus, true);
    *a.other.lock().unwrap() = Some(Arc::downgrade(&b));
    *b.other.lock().unwrap() = Some(Arc::downgrade(&a));
    (SimSocket { rx: a.clone(), tx: b.clone(), cfg: sock }, RawEnd { rx: b, tx: a })
}

/// A connected pair of sockets, both for zbus.
pub fn sim_socket_pair(world: &World, ab: LinkCfg, ba: LinkCfg, sa: SockCfg, sb: SockCfg) -> (SimSocket, SimSocket) {
    let l_ab = Link::new(world, "a->b", ab, false);
    let l_ba = Link::new(world, "b->a", ba, false);
    *l_ab.other.lock().unwrap() = Some(Arc::downgrade(&l_ba));
    *l_ba.other.lock().unwrap() = Some(Arc::downgrade(&l_ab));
    (SimSocket { rx: l_ba.clone(), tx: l_ab.clone(), cfg: sa }, SimSocket { rx: l_ab, tx: l_ba, cfg: sb })
}
