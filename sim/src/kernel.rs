//! The simulator kernel: seeded scheduler over async tasks (spawned by zbus through the
//! `zbus_verif` executor hook, or by the harness) and baton threads, a discrete-event clock, one
//! recorded decision stream, an event log, counters and panic capture.
use std::{
    any::Any,
    cell::Cell,
    collections::{BTreeMap, BinaryHeap},
    future::Future,
    panic::{catch_unwind, AssertUnwindSafe},
    pin::Pin,
    sync::{Arc, Condvar, Mutex},
    task::{Context, Poll, Wake, Waker},
    time::Duration,
};

use async_task::Runnable;
use serde::{Deserialize, Serialize};

use crate::rng::{Fnv, Rng};

pub const START_NS: u64 = 1_000_000_000_000;
pub const EVENT_ENTITY: u64 = u64::MAX;
/// See `State::pick_entity`.
pub const FAIR_BOUND: u64 = 256;
/// After this many scheduler steps at one simulated instant while a timer is pending, the clock jumps to
/// that timer although tasks are still runnable: tasks that busy-wait (async-lock's readers hand the
/// "no writer" notification round while a writer waits for a sleeping reader) burn real time on a real
/// machine, so the timer they are waiting for does fire there; in a discrete-event clock that only moves
/// when nothing is runnable it never would.
pub const SPIN_BOUND: u64 = 10_000;

/// How the schedule is chosen when decisions are seeded.
#[derive(Clone, Debug, Serialize, Deserialize, PartialEq)]
pub enum Strategy {
    /// Uniform over the enabled entities.
    Uniform,
    /// Keep running the entity that ran last with probability `stick`/8.
    Sticky { stick: u8 },
    /// PCT-like: random priorities, `changes` demotions at random steps below `horizon`.
    Pct { changes: u8, horizon: u32 },
}

/// Withhold entities whose name contains `victim` for a window of steps (a slow/stalled node).
#[derive(Clone, Debug, Serialize, Deserialize, PartialEq)]
pub struct Stall {
    pub victim: String,
    pub from_step: u64,
    pub steps: u64,
}

#[derive(Clone, Debug, Serialize, Deserialize, PartialEq)]
pub enum Decisions {
    Seeded(u64),
    Explicit(Vec<u32>),
}

#[derive(Clone, Debug, Serialize, Deserialize, PartialEq)]
pub struct SchedCfg {
    pub decisions: Decisions,
    pub strategy: Strategy,
    pub stall: Option<Stall>,
    pub hash_seed: u64,
    pub step_cap: u64,
    /// 0 = never; n = a task about to acquire one of zbus's async locks gives way first with probability 1/n
    /// (a preemption point at every lock acquisition: what a multi-threaded executor adds to task-poll
    /// granularity)
    #[serde(default)]
    pub lock_yield: u8,
}

impl SchedCfg {
    pub fn generate(rng: &mut Rng, victims: &[&str]) -> SchedCfg {
        let strategy = match rng.below(8) {
            0..=2 => Strategy::Uniform,
            3..=4 => Strategy::Sticky { stick: rng.range(2, 7) as u8 },
            _ => Strategy::Pct { changes: rng.range(0, 4) as u8, horizon: rng.range(20, 400) as u32 },
        };
        let stall = if !victims.is_empty() && rng.chance(1, 3) {
            Some(Stall {
                victim: rng.pick(victims).to_string(),
                from_step: rng.range(0, 150),
                steps: rng.range(5, 150),
            })
        } else {
            None
        };
        SchedCfg {
            decisions: Decisions::Seeded(rng.next_u64()),
            strategy,
            stall,
            hash_seed: rng.next_u64(),
            step_cap: 200_000,
            lock_yield: *rng.pick(&[0u8, 0, 2, 4, 8]),
        }
    }

    pub fn simplest() -> SchedCfg {
        SchedCfg {
            decisions: Decisions::Explicit(vec![]),
            strategy: Strategy::Uniform,
            stall: None,
            hash_seed: 0,
            step_cap: 200_000,
            lock_yield: 0,
        }
    }
}

#[derive(Clone, Copy, Debug, PartialEq, Eq)]
pub enum Stop {
    Quiescent,
    StepCap,
}

enum EventAction {
    Wake(Arc<Mutex<Option<Waker>>>),
    Call(Box<dyn FnOnce() + Send>),
}

struct Event {
    at: u64,
    seq: u64,
    action: EventAction,
}

impl PartialEq for Event {
    fn eq(&self, o: &Self) -> bool {
        (self.at, self.seq) == (o.at, o.seq)
    }
}
impl Eq for Event {}
impl PartialOrd for Event {
    fn partial_cmp(&self, o: &Self) -> Option<std::cmp::Ordering> {
        Some(self.cmp(o))
    }
}
impl Ord for Event {
    fn cmp(&self, o: &Self) -> std::cmp::Ordering {
        // BinaryHeap is a max-heap: reverse.
        (o.at, o.seq).cmp(&(self.at, self.seq))
    }
}

#[derive(Clone, Copy, PartialEq, Eq, Debug)]
enum ThreadStatus {
    Ready,
    Running,
    Parked,
    Done,
}

struct ThreadSlot {
    status: ThreadStatus,
    wake_pending: bool,
}

struct State {
    now: u64,
    /// scheduler steps taken since `now` last changed
    steps_at_now: u64,
    seq: u64,
    next_id: u64,
    runnable: BTreeMap<u64, Runnable>,
    /// step at which each runnable entity became runnable (fairness bound)
    since: BTreeMap<u64, u64>,
    names: BTreeMap<u64, String>,
    events: BinaryHeap<Event>,
    threads: BTreeMap<u64, ThreadSlot>,
    granted: Option<u64>,
    handles: Vec<std::thread::JoinHandle<()>>,

    rng: Option<Rng>,
    explicit: Vec<u32>,
    explicit_pos: usize,
    taken: Vec<u32>,
    strategy: Strategy,
    stall: Option<Stall>,
    prio: BTreeMap<u64, u64>,
    change_points: Vec<u64>,
    last_ran: Option<u64>,

    steps: u64,
    step_cap: u64,
    lock_yield: u8,
    hash: Fnv,
    record: bool,
    log: Vec<String>,
    counters: BTreeMap<&'static str, u64>,
    panics: Vec<String>,
}

pub struct Shared {
    st: Mutex<State>,
    cv: Condvar,
    me: std::sync::Weak<Shared>,
}

thread_local! {
    static THREAD_ID: Cell<Option<u64>> = const { Cell::new(None) };
    static IN_SIM: Cell<bool> = const { Cell::new(false) };
    static LAST_PANIC: std::cell::RefCell<Option<String>> = const { std::cell::RefCell::new(None) };
}

/// Install a process-wide panic hook that records instead of printing while inside a simulation.
pub fn install_panic_hook() {
    let prev = std::panic::take_hook();
    std::panic::set_hook(Box::new(move |info| {
        if IN_SIM.with(|c| c.get()) {
            let loc = info
                .location()
                .map(|l| format!("{}:{}", l.file(), l.line()))
                .unwrap_or_default();
            let msg = if let Some(s) = info.payload().downcast_ref::<&str>() {
                s.to_string()
            } else if let Some(s) = info.payload().downcast_ref::<String>() {
                s.clone()
            } else {
                "<non-string panic>".to_string()
            };
            LAST_PANIC.with(|p| *p.borrow_mut() = Some(format!("{msg} @ {loc}")));
        } else {
            prev(info);
        }
    }));
}

fn take_panic(payload: Box<dyn Any + Send>) -> String {
    LAST_PANIC.with(|p| p.borrow_mut().take()).unwrap_or_else(|| {
        if let Some(s) = payload.downcast_ref::<&str>() {
            s.to_string()
        } else if let Some(s) = payload.downcast_ref::<String>() {
            s.clone()
        } else {
            "<panic>".into()
        }
    })
}

#[derive(Clone)]
pub struct World(pub Arc<Shared>);

/// What a finished run leaves behind.
#[derive(Clone, Debug, Default)]
pub struct RunRecord {
    pub decisions: Vec<u32>,
    pub log_hash: u64,
    pub log: Vec<String>,
    pub steps: u64,
    pub sim_ns: u64,
    pub counters: BTreeMap<&'static str, u64>,
    pub panics: Vec<String>,
}

impl World {
    pub fn new(cfg: &SchedCfg, record: bool) -> World {
        let (rng, explicit) = match &cfg.decisions {
            Decisions::Seeded(s) => (Some(Rng::new(*s)), vec![]),
            Decisions::Explicit(v) => (None, v.clone()),
        };
        let mut change_points = vec![];
        if let (Some(r), Strategy::Pct { changes, horizon }) = (&rng, &cfg.strategy) {
            let mut r2 = r.clone();
            r2.next_u64();
            for _ in 0..*changes {
                change_points.push(r2.below(*horizon as u64 + 1));
            }
        }
        World(Arc::new_cyclic(|me| Shared {
            me: me.clone(),
            st: Mutex::new(State {
                now: START_NS,
                steps_at_now: 0,
                seq: 0,
                next_id: 1,
                runnable: BTreeMap::new(),
                since: BTreeMap::new(),
                names: BTreeMap::new(),
                events: BinaryHeap::new(),
                threads: BTreeMap::new(),
                granted: None,
                handles: vec![],
                rng,
                explicit,
                explicit_pos: 0,
                taken: vec![],
                strategy: cfg.strategy.clone(),
                stall: cfg.stall.clone(),
                prio: BTreeMap::new(),
                change_points,
                last_ran: None,
                steps: 0,
                step_cap: cfg.step_cap,
                lock_yield: cfg.lock_yield,
                hash: Fnv::default(),
                record,
                log: vec![],
                counters: BTreeMap::new(),
                panics: vec![],
            }),
            cv: Condvar::new(),
        }))
    }

    /// Make this world the simulator of the current thread (and of the process-level seams).
    pub fn install(&self, hash_seed: u64) {
        use std::sync::atomic::Ordering::SeqCst;
        crate::sys::SIM_CLOCK_NS.store(START_NS, SeqCst);
        crate::sys::SIM_CLOCK_ON.store(true, SeqCst);
        crate::sys::SIM_RAND_STATE.store(hash_seed, SeqCst);
        crate::sys::SIM_RAND_ON.store(true, SeqCst);
        IN_SIM.with(|c| c.set(true));
        zbus::verif::install(Some(self.0.clone() as Arc<dyn zbus::verif::Sim>));
    }

    pub fn uninstall() {
        use std::sync::atomic::Ordering::SeqCst;
        zbus::verif::install(None);
        IN_SIM.with(|c| c.set(false));
        crate::sys::SIM_CLOCK_ON.store(false, SeqCst);
        crate::sys::SIM_RAND_ON.store(false, SeqCst);
    }

    pub fn now(&self) -> u64 {
        self.0.st.lock().unwrap().now
    }

    pub fn steps(&self) -> u64 {
        self.0.st.lock().unwrap().steps
    }

    /// The single source of run-time nondeterminism: returns a value in `0..n`; `0` is always the
    /// "simplest" alternative, so truncated replays degrade gracefully.
    pub fn choose(&self, kind: &'static str, n: usize) -> usize {
        let mut st = self.0.st.lock().unwrap();
        st.choose(kind, n)
    }

    pub fn log(&self, f: impl FnOnce() -> String) {
        let mut st = self.0.st.lock().unwrap();
        st.log_with(f);
    }

    pub fn count(&self, key: &'static str) {
        *self.0.st.lock().unwrap().counters.entry(key).or_insert(0) += 1;
    }

    pub fn count_n(&self, key: &'static str, n: u64) {
        *self.0.st.lock().unwrap().counters.entry(key).or_insert(0) += n;
    }

    pub fn counter(&self, key: &'static str) -> u64 {
        self.0.st.lock().unwrap().counters.get(key).copied().unwrap_or(0)
    }

    pub fn panics(&self) -> Vec<String> {
        self.0.st.lock().unwrap().panics.clone()
    }

    pub fn spawn<F, T>(&self, name: &str, fut: F) -> async_task::Task<T>
    where
        F: Future<Output = T> + Send + 'static,
        T: Send + 'static,
    {
        let sim = self.0.clone() as Arc<dyn zbus::verif::Sim>;
        zbus::verif::spawn_on(&sim, fut, name)
    }

    pub fn sleep(&self, dur: Duration) -> Sleep {
        let deadline = self.now() + dur.as_nanos() as u64;
        Sleep { shared: self.0.clone(), deadline, slot: None }
    }

    pub fn sleep_ns(&self, ns: u64) -> Sleep {
        self.sleep(Duration::from_nanos(ns))
    }

    /// Yield once to the scheduler.
    pub fn yield_now(&self) -> YieldNow {
        YieldNow(false)
    }

    /// Wake `waker` at absolute simulated time `at`.
    pub fn wake_at(&self, at: u64, waker: Waker) {
        let mut st = self.0.st.lock().unwrap();
        st.seq += 1;
        let seq = st.seq;
        st.events.push(Event { at, seq, action: EventAction::Wake(Arc::new(Mutex::new(Some(waker)))) });
    }

    /// Run `f` at absolute simulated time `at` (fault events).
    pub fn call_at(&self, at: u64, f: impl FnOnce() + Send + 'static) {
        let mut st = self.0.st.lock().unwrap();
        st.seq += 1;
        let seq = st.seq;
        st.events.push(Event { at, seq, action: EventAction::Call(Box::new(f)) });
    }

    /// Run until nothing is runnable and no event is pending, or the step cap is hit.
    pub fn run(&self) -> Stop {
        self.run_steps(u64::MAX)
    }

    /// Like `run`, but returns after at most `max` scheduler steps.
    pub fn run_steps(&self, max: u64) -> Stop {
        let mut left = max;
        loop {
            if left == 0 {
                return Stop::Quiescent;
            }
            left -= 1;
            enum Pick {
                Task(u64, Runnable),
                Thread(u64),
                Event(Event),
            }
            let pick = {
                let mut st = self.0.st.lock().unwrap();
                if st.steps >= st.step_cap {
                    return Stop::StepCap;
                }
                let mut ents: Vec<u64> = st.runnable.keys().copied().collect();
                ents.extend(st.threads.iter().filter(|(_, t)| t.status == ThreadStatus::Ready).map(|(k, _)| *k));
                ents.sort_unstable();
                let due = st.events.peek().map(|e| e.at <= st.now).unwrap_or(false);
                if ents.is_empty() {
                    match st.events.pop() {
                        None => return Stop::Quiescent,
                        Some(ev) => {
                            if ev.at > st.now {
                                st.now = ev.at;
                                st.steps_at_now = 0;
                                crate::sys::SIM_CLOCK_NS.store(st.now, std::sync::atomic::Ordering::SeqCst);
                            }
                            Pick::Event(ev)
                        }
                    }
                } else {
                    let mut due = due;
                    st.steps_at_now += 1;
                    if !due && st.steps_at_now >= SPIN_BOUND {
                        if let Some(at) = st.events.peek().map(|e| e.at) {
                            st.now = at;
                            st.steps_at_now = 0;
                            crate::sys::SIM_CLOCK_NS.store(st.now, std::sync::atomic::Ordering::SeqCst);
                            *st.counters.entry("sched.spin_time_jump").or_insert(0) += 1;
                            st.log_with(|| format!("clock jumps to the next timer after {SPIN_BOUND} steps at one instant (busy-waiting tasks)"));
                            due = true;
                        }
                    }
                    // a due timer is subject to the fairness bound like a runnable task
                    if due {
                        ents.push(EVENT_ENTITY);
                        let step = st.steps;
                        st.since.entry(EVENT_ENTITY).or_insert(step);
                    } else {
                        st.since.remove(&EVENT_ENTITY);
                    }
                    let idx = st.pick_entity(&ents);
                    let id = ents[idx];
                    st.steps += 1;
                    st.last_ran = Some(id);
                    if id == EVENT_ENTITY {
                        st.since.remove(&EVENT_ENTITY);
                        Pick::Event(st.events.pop().unwrap())
                    } else if let Some(r) = st.runnable.remove(&id) {
                        st.since.remove(&id);
                        let step = st.steps;
                        let now = st.now;
                        st.hash.write_u64(id);
                        if st.record {
                            let name = st.names.get(&id).cloned().unwrap_or_default();
                            st.log.push(format!("#{step} t={} run task {id} [{name}]", now - START_NS));
                        }
                        Pick::Task(id, r)
                    } else {
                        let step = st.steps;
                        st.hash.write_u64(id);
                        if st.record {
                            let name = st.names.get(&id).cloned().unwrap_or_default();
                            st.log.push(format!("#{step} run thread {id} [{name}]"));
                        }
                        Pick::Thread(id)
                    }
                }
            };
            match pick {
                Pick::Task(id, r) => {
                    if let Err(p) = catch_unwind(AssertUnwindSafe(|| r.run())) {
                        let msg = take_panic(p);
                        let mut st = self.0.st.lock().unwrap();
                        let name = st.names.get(&id).cloned().unwrap_or_default();
                        st.log_with(|| format!("PANIC in task {id} [{name}]: {msg}"));
                        st.panics.push(format!("{msg} (task [{name}])"));
                    }
                }
                Pick::Thread(id) => {
                    let mut st = self.0.st.lock().unwrap();
                    st.threads.get_mut(&id).unwrap().status = ThreadStatus::Running;
                    st.granted = Some(id);
                    self.0.cv.notify_all();
                    while st.threads.get(&id).map(|t| t.status == ThreadStatus::Running).unwrap_or(false) {
                        st = self.0.cv.wait(st).unwrap();
                    }
                    st.granted = None;
                }
                Pick::Event(ev) => match ev.action {
                    EventAction::Wake(slot) => {
                        let w = slot.lock().unwrap().take();
                        if let Some(w) = w {
                            w.wake();
                        }
                    }
                    EventAction::Call(f) => f(),
                },
            }
        }
    }

    /// Drop every queued runnable (cancelling its future) until none is left.
    pub fn drain(&self) {
        for _ in 0..10_000 {
            let (r, e) = {
                let mut st = self.0.st.lock().unwrap();
                (std::mem::take(&mut st.runnable), std::mem::take(&mut st.events))
            };
            if r.is_empty() && e.is_empty() {
                break;
            }
            let _ = catch_unwind(AssertUnwindSafe(move || {
                drop(r);
                drop(e);
            }));
        }
    }

    /// Spawn a real thread that only runs while the scheduler hands it the baton.
    pub fn spawn_thread(&self, name: &str, f: impl FnOnce() + Send + 'static) -> u64 {
        let id = {
            let mut st = self.0.st.lock().unwrap();
            let id = st.next_id;
            st.next_id += 1;
            st.names.insert(id, name.to_string());
            st.threads.insert(id, ThreadSlot { status: ThreadStatus::Ready, wake_pending: false });
            id
        };
        let shared = self.0.clone();
        let h = std::thread::Builder::new()
            .name(format!("baton-{name}"))
            .spawn(move || {
                THREAD_ID.with(|c| c.set(Some(id)));
                IN_SIM.with(|c| c.set(true));
                zbus::verif::install(Some(shared.clone() as Arc<dyn zbus::verif::Sim>));
                // Wait for the first grant.
                {
                    let mut st = shared.st.lock().unwrap();
                    while st.granted != Some(id) {
                        st = shared.cv.wait(st).unwrap();
                    }
                }
                let res = catch_unwind(AssertUnwindSafe(f));
                zbus::verif::install(None);
                let mut st = shared.st.lock().unwrap();
                if let Err(p) = res {
                    let msg = take_panic(p);
                    st.panics.push(format!("{msg} (thread {id})"));
                }
                st.threads.get_mut(&id).unwrap().status = ThreadStatus::Done;
                shared.cv.notify_all();
            })
            .expect("spawn baton thread");
        self.0.st.lock().unwrap().handles.push(h);
        id
    }

    /// Join the baton threads.  A thread that is still parked (a blocking call that can never
    /// return: the scenario reports that as a hang) is detached instead, it stays parked forever.
    pub fn join_threads(&self) {
        let (hs, all_done) = {
            let mut st = self.0.st.lock().unwrap();
            let done = st.threads.values().all(|t| t.status == ThreadStatus::Done);
            (std::mem::take(&mut st.handles), done)
        };
        if all_done {
            for h in hs {
                let _ = h.join();
            }
        }
    }

    pub fn threads_unfinished(&self) -> usize {
        self.0.st.lock().unwrap().threads.values().filter(|t| t.status != ThreadStatus::Done).count()
    }

    pub fn finish(&self) -> RunRecord {
        let st = self.0.st.lock().unwrap();
        RunRecord {
            decisions: st.taken.clone(),
            log_hash: st.hash.0,
            log: st.log.clone(),
            steps: st.steps,
            sim_ns: st.now - START_NS,
            counters: st.counters.clone(),
            panics: st.panics.clone(),
        }
    }
}

impl State {
    fn log_with(&mut self, f: impl FnOnce() -> String) {
        // Hash always (cheaply, through the formatted text only when recording; otherwise hash a
        // marker so that the number and position of log events still count).
        if self.record {
            let s = f();
            self.hash.write(s.as_bytes());
            let t = self.now - START_NS;
            self.log.push(format!("   t={t} {s}"));
        } else {
            let s = f();
            self.hash.write(s.as_bytes());
        }
    }

    fn choose(&mut self, kind: &'static str, n: usize) -> usize {
        if n <= 1 {
            return 0;
        }
        let v = match &mut self.rng {
            Some(r) => r.below(n as u64) as usize,
            None => {
                let v = self.explicit.get(self.explicit_pos).copied().unwrap_or(0) as usize % n;
                self.explicit_pos += 1;
                v
            }
        };
        self.taken.push(v as u32);
        self.hash.write(kind.as_bytes());
        self.hash.write_u64(v as u64);
        v
    }

    fn pick_entity(&mut self, ents: &[u64]) -> usize {
        if ents.len() == 1 {
            return 0;
        }
        // Fairness bound: a task that has been runnable for FAIR_BOUND steps runs now, whatever the
        // strategy or the recorded decisions say (no decision is drawn or consumed, so replay stays
        // exact).  Without it, priority schedules starve the one task a retry loop in a dependency
        // (async-lock's reader hand-off) is waiting for, which would look like a hang.
        let now = self.steps;
        if let Some((i, _)) = ents
            .iter()
            .enumerate()
            .filter_map(|(i, id)| self.since.get(id).map(|s| (i, now.saturating_sub(*s))))
            .filter(|(_, age)| *age >= FAIR_BOUND)
            .max_by_key(|(i, age)| (*age, usize::MAX - *i))
        {
            *self.counters.entry("sched.fairness_forced_pick").or_insert(0) += 1;
            return i;
        }
        if self.rng.is_none() {
            let v = self.explicit.get(self.explicit_pos).copied().unwrap_or(0) as usize % ents.len();
            self.explicit_pos += 1;
            self.taken.push(v as u32);
            return v;
        }
        // Seeded: apply stall + strategy, record the resulting index.
        let mut enabled: Vec<usize> = (0..ents.len()).collect();
        if let Some(stall) = &self.stall {
            if self.steps >= stall.from_step && self.steps < stall.from_step + stall.steps {
                let keep: Vec<usize> = enabled
                    .iter()
                    .copied()
                    .filter(|i| !self.names.get(&ents[*i]).map(|n| n.contains(&stall.victim)).unwrap_or(false))
                    .collect();
                if !keep.is_empty() && keep.len() < enabled.len() {
                    *self.counters.entry("fault.stall_task").or_insert(0) += 1;
                    enabled = keep;
                }
            }
        }
        let rng = self.rng.as_mut().unwrap();
        let idx = match &self.strategy {
            Strategy::Uniform => enabled[rng.usize(enabled.len())],
            Strategy::Sticky { stick } => {
                let last = self.last_ran.and_then(|l| enabled.iter().copied().find(|i| ents[*i] == l));
                match last {
                    Some(i) if rng.below(8) < *stick as u64 => i,
                    _ => enabled[rng.usize(enabled.len())],
                }
            }
            Strategy::Pct { .. } => {
                for i in &enabled {
                    let id = ents[*i];
                    if !self.prio.contains_key(&id) {
                        let p = rng.next_u64() | (1 << 63);
                        self.prio.insert(id, p);
                    }
                }
                let best = *enabled.iter().max_by_key(|i| self.prio[&ents[**i]]).unwrap();
                if self.change_points.contains(&self.steps) {
                    // demote below everything seen so far
                    let low = self.steps;
                    self.prio.insert(ents[best], low);
                }
                best
            }
        };
        self.taken.push(idx as u32);
        idx
    }
}

impl zbus::verif::Sim for Shared {
    fn next_task_id(&self, name: &str) -> u64 {
        let mut st = self.st.lock().unwrap();
        let id = st.next_id;
        st.next_id += 1;
        st.names.insert(id, name.to_string());
        st.log_with(|| format!("spawn task {id} [{name}]"));
        id
    }

    fn schedule(&self, id: u64, runnable: Runnable) {
        let mut st = self.st.lock().unwrap();
        let now = st.steps;
        st.since.entry(id).or_insert(now);
        st.runnable.insert(id, runnable);
    }

    fn sleep(&self, dur: Duration) -> Pin<Box<dyn Future<Output = ()> + Send>> {
        let now = self.st.lock().unwrap().now;
        {
            let mut st = self.st.lock().unwrap();
            *st.counters.entry("fault.timer_armed").or_insert(0) += 1;
        }
        let shared = self.me.upgrade().expect("world gone");
        Box::pin(Sleep { shared, deadline: now + dur.as_nanos() as u64, slot: None })
    }

    fn lock_yield(&self, site: &'static str) -> bool {
        let mut st = self.st.lock().unwrap();
        let n = st.lock_yield as usize;
        if n < 2 {
            return false;
        }
        let y = st.choose("lockyield", n) == 1;
        if y {
            *st.counters.entry("fault.yield_before_lock").or_insert(0) += 1;
            st.log_with(|| format!("yield before {site} lock"));
        }
        y
    }

    fn sched_point(&self, site: &'static str) {
        let Some(id) = THREAD_ID.with(|c| c.get()) else { return };
        let mut st = self.st.lock().unwrap();
        st.hash.write(site.as_bytes());
        if st.record {
            st.log.push(format!("   thread {id} at {site}"));
        }
        st.threads.get_mut(&id).unwrap().status = ThreadStatus::Ready;
        self.cv.notify_all();
        while st.granted != Some(id) || st.threads[&id].status != ThreadStatus::Running {
            st = self.cv.wait(st).unwrap();
        }
    }

    fn thread_waker(&self) -> Waker {
        let id = THREAD_ID.with(|c| c.get()).expect("thread_waker outside a baton thread");
        let shared = self.me.upgrade().expect("world gone");
        Waker::from(Arc::new(ThreadWaker { shared, id }))
    }

    fn park(&self) {
        let Some(id) = THREAD_ID.with(|c| c.get()) else {
            panic!("zbus block_on on the simulator thread would deadlock the simulation");
        };
        let mut st = self.st.lock().unwrap();
        let slot = st.threads.get_mut(&id).unwrap();
        if slot.wake_pending {
            slot.wake_pending = false;
            slot.status = ThreadStatus::Ready;
        } else {
            slot.status = ThreadStatus::Parked;
        }
        self.cv.notify_all();
        while st.granted != Some(id) || st.threads[&id].status != ThreadStatus::Running {
            st = self.cv.wait(st).unwrap();
        }
    }
}

struct ThreadWaker {
    shared: Arc<Shared>,
    id: u64,
}

impl Wake for ThreadWaker {
    fn wake(self: Arc<Self>) {
        self.wake_by_ref()
    }
    fn wake_by_ref(self: &Arc<Self>) {
        let mut st = self.shared.st.lock().unwrap();
        if let Some(slot) = st.threads.get_mut(&self.id) {
            match slot.status {
                ThreadStatus::Parked => slot.status = ThreadStatus::Ready,
                ThreadStatus::Running | ThreadStatus::Ready => slot.wake_pending = true,
                ThreadStatus::Done => {}
            }
        }
    }
}

pub struct Sleep {
    shared: Arc<Shared>,
    deadline: u64,
    slot: Option<Arc<Mutex<Option<Waker>>>>,
}

impl Future for Sleep {
    type Output = ();
    fn poll(mut self: Pin<&mut Self>, cx: &mut Context<'_>) -> Poll<()> {
        let mut st = self.shared.st.lock().unwrap();
        if st.now >= self.deadline {
            return Poll::Ready(());
        }
        match &self.slot {
            Some(slot) => {
                let mut s = slot.lock().unwrap();
                if s.is_some() {
                    *s = Some(cx.waker().clone());
                    return Poll::Pending;
                }
                // the event already fired (spurious early wake cannot happen: it fires at the
                // deadline), fall through and re-arm
            }
            None => {}
        }
        let slot = Arc::new(Mutex::new(Some(cx.waker().clone())));
        st.seq += 1;
        let seq = st.seq;
        let at = self.deadline;
        st.events.push(Event { at, seq, action: EventAction::Wake(slot.clone()) });
        drop(st);
        self.slot = Some(slot);
        Poll::Pending
    }
}

impl Drop for Sleep {
    fn drop(&mut self) {
        if let Some(slot) = &self.slot {
            *slot.lock().unwrap() = None;
        }
    }
}

pub struct YieldNow(bool);

/// Yield once to the scheduler (no world handle needed).
pub fn yield_once() -> YieldNow {
    YieldNow(false)
}

impl Future for YieldNow {
    type Output = ();
    fn poll(mut self: Pin<&mut Self>, cx: &mut Context<'_>) -> Poll<()> {
        if self.0 {
            Poll::Ready(())
        } else {
            self.0 = true;
            cx.waker().wake_by_ref();
            Poll::Pending
        }
    }
}
