//! An independent D-Bus wire codec written from the specification: frame parser, header field
//! reader and a small marshaller.  Nothing in here calls zbus or zvariant, so it can judge them.
use std::fmt;

#[derive(Clone, Debug, PartialEq, serde::Serialize, serde::Deserialize)]
pub enum Val {
    Byte(u8),
    Bool(bool),
    I16(i16),
    U16(u16),
    I32(i32),
    U32(u32),
    I64(i64),
    U64(u64),
    F64(f64),
    Str(String),
    Path(String),
    Sig(String),
    Fd(u32),
    /// element signature, elements
    Array(String, Vec<Val>),
    Struct(Vec<Val>),
    DictEntry(Box<Val>, Box<Val>),
    Variant(Box<Val>),
}

impl Val {
    pub fn sig(&self) -> String {
        match self {
            Val::Byte(_) => "y".into(),
            Val::Bool(_) => "b".into(),
            Val::I16(_) => "n".into(),
            Val::U16(_) => "q".into(),
            Val::I32(_) => "i".into(),
            Val::U32(_) => "u".into(),
            Val::I64(_) => "x".into(),
            Val::U64(_) => "t".into(),
            Val::F64(_) => "d".into(),
            Val::Str(_) => "s".into(),
            Val::Path(_) => "o".into(),
            Val::Sig(_) => "g".into(),
            Val::Fd(_) => "h".into(),
            Val::Array(e, _) => format!("a{e}"),
            Val::Struct(f) => format!("({})", f.iter().map(|v| v.sig()).collect::<String>()),
            Val::DictEntry(k, v) => format!("{{{}{}}}", k.sig(), v.sig()),
            Val::Variant(_) => "v".into(),
        }
    }

    pub fn str(s: &str) -> Val {
        Val::Str(s.to_string())
    }

    pub fn as_str(&self) -> Option<&str> {
        match self {
            Val::Str(s) | Val::Path(s) | Val::Sig(s) => Some(s),
            Val::Variant(v) => v.as_str(),
            _ => None,
        }
    }

    pub fn as_u32(&self) -> Option<u32> {
        match self {
            Val::U32(v) => Some(*v),
            Val::Variant(v) => v.as_u32(),
            _ => None,
        }
    }

    pub fn unvariant(&self) -> &Val {
        match self {
            Val::Variant(v) => v,
            v => v,
        }
    }

    /// `a{sv}` from pairs.
    pub fn dict_sv(pairs: Vec<(String, Val)>) -> Val {
        Val::Array(
            "{sv}".into(),
            pairs
                .into_iter()
                .map(|(k, v)| Val::DictEntry(Box::new(Val::Str(k)), Box::new(Val::Variant(Box::new(v)))))
                .collect(),
        )
    }

    pub fn strs(xs: &[&str]) -> Val {
        Val::Array("s".into(), xs.iter().map(|s| Val::str(s)).collect())
    }
}

pub fn align_of(sig_first: u8) -> usize {
    match sig_first {
        b'y' | b'g' | b'v' => 1,
        b'n' | b'q' => 2,
        b'b' | b'i' | b'u' | b's' | b'o' | b'a' | b'h' => 4,
        b'x' | b't' | b'd' | b'(' | b'{' => 8,
        _ => 1,
    }
}

pub struct Enc {
    pub buf: Vec<u8>,
    pub big: bool,
    /// offset of `buf[0]` within the message (for alignment)
    pub base: usize,
}

impl Enc {
    pub fn new(big: bool, base: usize) -> Enc {
        Enc { buf: vec![], big, base }
    }
    pub fn pad(&mut self, a: usize) {
        while (self.base + self.buf.len()) % a != 0 {
            self.buf.push(0);
        }
    }
    pub fn u16(&mut self, v: u16) {
        self.pad(2);
        self.buf.extend_from_slice(&if self.big { v.to_be_bytes() } else { v.to_le_bytes() });
    }
    pub fn u32(&mut self, v: u32) {
        self.pad(4);
        self.buf.extend_from_slice(&if self.big { v.to_be_bytes() } else { v.to_le_bytes() });
    }
    pub fn u64(&mut self, v: u64) {
        self.pad(8);
        self.buf.extend_from_slice(&if self.big { v.to_be_bytes() } else { v.to_le_bytes() });
    }
    pub fn string(&mut self, s: &str) {
        self.u32(s.len() as u32);
        self.buf.extend_from_slice(s.as_bytes());
        self.buf.push(0);
    }
    pub fn signature(&mut self, s: &str) {
        self.buf.push(s.len() as u8);
        self.buf.extend_from_slice(s.as_bytes());
        self.buf.push(0);
    }
    pub fn val(&mut self, v: &Val) {
        match v {
            Val::Byte(b) => self.buf.push(*b),
            Val::Bool(b) => self.u32(*b as u32),
            Val::I16(x) => self.u16(*x as u16),
            Val::U16(x) => self.u16(*x),
            Val::I32(x) => self.u32(*x as u32),
            Val::U32(x) => self.u32(*x),
            Val::Fd(x) => self.u32(*x),
            Val::I64(x) => self.u64(*x as u64),
            Val::U64(x) => self.u64(*x),
            Val::F64(x) => self.u64(x.to_bits()),
            Val::Str(s) | Val::Path(s) => self.string(s),
            Val::Sig(s) => self.signature(s),
            Val::Array(esig, items) => {
                self.u32(0);
                let len_pos = self.buf.len() - 4;
                self.pad(align_of(esig.as_bytes()[0]));
                let start = self.buf.len();
                for it in items {
                    self.val(it);
                }
                let len = (self.buf.len() - start) as u32;
                let b = if self.big { len.to_be_bytes() } else { len.to_le_bytes() };
                self.buf[len_pos..len_pos + 4].copy_from_slice(&b);
            }
            Val::Struct(fields) => {
                self.pad(8);
                for f in fields {
                    self.val(f);
                }
            }
            Val::DictEntry(k, v) => {
                self.pad(8);
                self.val(k);
                self.val(v);
            }
            Val::Variant(inner) => {
                self.signature(&inner.sig());
                self.val(inner);
            }
        }
    }
}

/// Encode a message body (a sequence of values starting at an 8-aligned offset).
pub fn encode_body(vals: &[Val], big: bool) -> (String, Vec<u8>) {
    let mut e = Enc::new(big, 0);
    let mut sig = String::new();
    for v in vals {
        sig.push_str(&v.sig());
        e.val(v);
    }
    (sig, e.buf)
}

pub struct Dec<'a> {
    pub buf: &'a [u8],
    pub pos: usize,
    pub big: bool,
}

type R<T> = Result<T, String>;

impl<'a> Dec<'a> {
    pub fn new(buf: &'a [u8], pos: usize, big: bool) -> Dec<'a> {
        Dec { buf, pos, big }
    }
    fn pad(&mut self, a: usize) -> R<()> {
        while self.pos % a != 0 {
            if self.pos >= self.buf.len() {
                return Err("eof in padding".into());
            }
            self.pos += 1;
        }
        Ok(())
    }
    fn take(&mut self, n: usize) -> R<&'a [u8]> {
        if self.pos + n > self.buf.len() {
            return Err(format!("eof: need {n} at {}", self.pos));
        }
        let s = &self.buf[self.pos..self.pos + n];
        self.pos += n;
        Ok(s)
    }
    pub fn u8(&mut self) -> R<u8> {
        Ok(self.take(1)?[0])
    }
    pub fn u16(&mut self) -> R<u16> {
        self.pad(2)?;
        let b: [u8; 2] = self.take(2)?.try_into().unwrap();
        Ok(if self.big { u16::from_be_bytes(b) } else { u16::from_le_bytes(b) })
    }
    pub fn u32(&mut self) -> R<u32> {
        self.pad(4)?;
        let b: [u8; 4] = self.take(4)?.try_into().unwrap();
        Ok(if self.big { u32::from_be_bytes(b) } else { u32::from_le_bytes(b) })
    }
    pub fn u64(&mut self) -> R<u64> {
        self.pad(8)?;
        let b: [u8; 8] = self.take(8)?.try_into().unwrap();
        Ok(if self.big { u64::from_be_bytes(b) } else { u64::from_le_bytes(b) })
    }
    pub fn string(&mut self) -> R<String> {
        let n = self.u32()? as usize;
        let s = self.take(n)?;
        let z = self.u8()?;
        if z != 0 {
            return Err("string not nul-terminated".into());
        }
        String::from_utf8(s.to_vec()).map_err(|e| e.to_string())
    }
    pub fn signature(&mut self) -> R<String> {
        let n = self.u8()? as usize;
        let s = self.take(n)?;
        let z = self.u8()?;
        if z != 0 {
            return Err("signature not nul-terminated".into());
        }
        String::from_utf8(s.to_vec()).map_err(|e| e.to_string())
    }
    /// Decode one complete type described by `sig` (must be exactly one complete type).
    pub fn val(&mut self, sig: &str) -> R<Val> {
        let b = sig.as_bytes();
        if b.is_empty() {
            return Err("empty signature".into());
        }
        Ok(match b[0] {
            b'y' => Val::Byte(self.u8()?),
            b'b' => Val::Bool(self.u32()? != 0),
            b'n' => Val::I16(self.u16()? as i16),
            b'q' => Val::U16(self.u16()?),
            b'i' => Val::I32(self.u32()? as i32),
            b'u' => Val::U32(self.u32()?),
            b'h' => Val::Fd(self.u32()?),
            b'x' => Val::I64(self.u64()? as i64),
            b't' => Val::U64(self.u64()?),
            b'd' => Val::F64(f64::from_bits(self.u64()?)),
            b's' => Val::Str(self.string()?),
            b'o' => Val::Path(self.string()?),
            b'g' => Val::Sig(self.signature()?),
            b'v' => {
                let s = self.signature()?;
                Val::Variant(Box::new(self.val(&s)?))
            }
            b'a' => {
                let esig = &sig[1..];
                let len = self.u32()? as usize;
                self.pad(align_of(esig.as_bytes()[0]))?;
                let end = self.pos + len;
                if end > self.buf.len() {
                    return Err("array beyond buffer".into());
                }
                let mut items = vec![];
                while self.pos < end {
                    items.push(self.val(esig)?);
                }
                Val::Array(esig.to_string(), items)
            }
            b'(' => {
                self.pad(8)?;
                let inner = &sig[1..sig.len() - 1];
                let mut fields = vec![];
                for s in split_sig(inner)? {
                    fields.push(self.val(&s)?);
                }
                Val::Struct(fields)
            }
            b'{' => {
                self.pad(8)?;
                let inner = &sig[1..sig.len() - 1];
                let parts = split_sig(inner)?;
                if parts.len() != 2 {
                    return Err("dict entry needs 2 types".into());
                }
                let k = self.val(&parts[0])?;
                let v = self.val(&parts[1])?;
                Val::DictEntry(Box::new(k), Box::new(v))
            }
            c => return Err(format!("unknown type code {c}")),
        })
    }
}

/// Split a signature into complete types.
pub fn split_sig(sig: &str) -> R<Vec<String>> {
    let b = sig.as_bytes();
    let mut out = vec![];
    let mut i = 0;
    while i < b.len() {
        let j = one_type_end(b, i)?;
        out.push(sig[i..j].to_string());
        i = j;
    }
    Ok(out)
}

fn one_type_end(b: &[u8], i: usize) -> R<usize> {
    if i >= b.len() {
        return Err("truncated signature".into());
    }
    match b[i] {
        b'a' => one_type_end(b, i + 1),
        b'(' | b'{' => {
            let close = if b[i] == b'(' { b')' } else { b'}' };
            let mut j = i + 1;
            while j < b.len() && b[j] != close {
                j = one_type_end(b, j)?;
            }
            if j >= b.len() {
                return Err("unclosed container".into());
            }
            Ok(j + 1)
        }
        _ => Ok(i + 1),
    }
}

pub fn decode_body(sig: &str, body: &[u8], big: bool) -> R<Vec<Val>> {
    let mut d = Dec::new(body, 0, big);
    let mut out = vec![];
    for s in split_sig(sig)? {
        out.push(d.val(&s)?);
    }
    Ok(out)
}

pub const T_CALL: u8 = 1;
pub const T_RETURN: u8 = 2;
pub const T_ERROR: u8 = 3;
pub const T_SIGNAL: u8 = 4;

pub const F_PATH: u8 = 1;
pub const F_INTERFACE: u8 = 2;
pub const F_MEMBER: u8 = 3;
pub const F_ERROR_NAME: u8 = 4;
pub const F_REPLY_SERIAL: u8 = 5;
pub const F_DESTINATION: u8 = 6;
pub const F_SENDER: u8 = 7;
pub const F_SIGNATURE: u8 = 8;
pub const F_UNIX_FDS: u8 = 9;

#[derive(Clone, PartialEq)]
pub struct RawMsg {
    pub big: bool,
    pub mtype: u8,
    pub flags: u8,
    pub version: u8,
    pub serial: u32,
    pub fields: Vec<(u8, Val)>,
    pub body: Vec<u8>,
}

impl fmt::Debug for RawMsg {
    fn fmt(&self, f: &mut fmt::Formatter<'_>) -> fmt::Result {
        write!(
            f,
            "RawMsg{{t={} fl={:#x} ser={} {:?} body[{}]}}",
            self.mtype,
            self.flags,
            self.serial,
            self.fields,
            self.body.len()
        )
    }
}

impl RawMsg {
    pub fn new(mtype: u8, serial: u32) -> RawMsg {
        RawMsg { big: false, mtype, flags: 0, version: 1, serial, fields: vec![], body: vec![] }
    }

    pub fn call(serial: u32, path: &str, iface: Option<&str>, member: &str) -> RawMsg {
        let mut m = RawMsg::new(T_CALL, serial);
        m.fields.push((F_PATH, Val::Path(path.into())));
        if let Some(i) = iface {
            m.fields.push((F_INTERFACE, Val::str(i)));
        }
        m.fields.push((F_MEMBER, Val::str(member)));
        m
    }

    pub fn signal(serial: u32, path: &str, iface: &str, member: &str) -> RawMsg {
        let mut m = RawMsg::new(T_SIGNAL, serial);
        m.fields.push((F_PATH, Val::Path(path.into())));
        m.fields.push((F_INTERFACE, Val::str(iface)));
        m.fields.push((F_MEMBER, Val::str(member)));
        m
    }

    pub fn ret(serial: u32, reply_to: u32) -> RawMsg {
        let mut m = RawMsg::new(T_RETURN, serial);
        m.fields.push((F_REPLY_SERIAL, Val::U32(reply_to)));
        m
    }

    pub fn error(serial: u32, reply_to: u32, name: &str) -> RawMsg {
        let mut m = RawMsg::new(T_ERROR, serial);
        m.fields.push((F_ERROR_NAME, Val::str(name)));
        m.fields.push((F_REPLY_SERIAL, Val::U32(reply_to)));
        m
    }

    pub fn with(mut self, code: u8, v: Val) -> RawMsg {
        self.fields.retain(|(c, _)| *c != code);
        self.fields.push((code, v));
        self
    }

    pub fn sender(self, s: &str) -> RawMsg {
        self.with(F_SENDER, Val::str(s))
    }

    pub fn destination(self, s: &str) -> RawMsg {
        self.with(F_DESTINATION, Val::str(s))
    }

    pub fn flags(mut self, f: u8) -> RawMsg {
        self.flags = f;
        self
    }

    pub fn big(mut self, big: bool) -> RawMsg {
        self.big = big;
        self
    }

    pub fn body(mut self, vals: &[Val]) -> RawMsg {
        let (sig, body) = encode_body(vals, self.big);
        self.body = body;
        self.fields.retain(|(c, _)| *c != F_SIGNATURE);
        if !sig.is_empty() {
            self.fields.push((F_SIGNATURE, Val::Sig(sig)));
        }
        self
    }

    pub fn field(&self, code: u8) -> Option<&Val> {
        self.fields.iter().find(|(c, _)| *c == code).map(|(_, v)| v)
    }
    pub fn fstr(&self, code: u8) -> Option<&str> {
        self.field(code).and_then(|v| v.as_str())
    }
    pub fn path(&self) -> Option<&str> {
        self.fstr(F_PATH)
    }
    pub fn interface(&self) -> Option<&str> {
        self.fstr(F_INTERFACE)
    }
    pub fn member(&self) -> Option<&str> {
        self.fstr(F_MEMBER)
    }
    pub fn error_name(&self) -> Option<&str> {
        self.fstr(F_ERROR_NAME)
    }
    pub fn reply_serial(&self) -> Option<u32> {
        self.field(F_REPLY_SERIAL).and_then(|v| v.as_u32())
    }
    pub fn get_destination(&self) -> Option<&str> {
        self.fstr(F_DESTINATION)
    }
    pub fn get_sender(&self) -> Option<&str> {
        self.fstr(F_SENDER)
    }
    pub fn signature(&self) -> &str {
        self.fstr(F_SIGNATURE).unwrap_or("")
    }
    pub fn unix_fds(&self) -> u32 {
        self.field(F_UNIX_FDS).and_then(|v| v.as_u32()).unwrap_or(0)
    }
    pub fn body_vals(&self) -> R<Vec<Val>> {
        decode_body(self.signature(), &self.body, self.big)
    }

    pub fn encode(&self) -> Vec<u8> {
        let mut e = Enc::new(self.big, 0);
        e.buf.push(if self.big { b'B' } else { b'l' });
        e.buf.push(self.mtype);
        e.buf.push(self.flags);
        e.buf.push(self.version);
        e.u32(self.body.len() as u32);
        e.u32(self.serial);
        // a(yv)
        e.u32(0);
        let start = e.buf.len();
        for (code, v) in &self.fields {
            e.pad(8);
            e.buf.push(*code);
            e.signature(&v.unvariant().sig());
            e.val(v.unvariant());
        }
        let len = (e.buf.len() - start) as u32;
        let b = if self.big { len.to_be_bytes() } else { len.to_le_bytes() };
        e.buf[12..16].copy_from_slice(&b);
        e.pad(8);
        e.buf.extend_from_slice(&self.body);
        e.buf
    }

    pub fn decode(bytes: &[u8]) -> R<RawMsg> {
        if bytes.len() < 16 {
            return Err("short".into());
        }
        let big = match bytes[0] {
            b'l' => false,
            b'B' => true,
            c => return Err(format!("bad endian byte {c}")),
        };
        let mut d = Dec::new(bytes, 4, big);
        let body_len = d.u32()? as usize;
        let serial = d.u32()?;
        let flen = d.u32()? as usize;
        let fend = 16 + flen;
        if fend > bytes.len() {
            return Err("fields beyond buffer".into());
        }
        let mut fields = vec![];
        while d.pos < fend {
            d.pad(8)?;
            if d.pos >= fend {
                break;
            }
            let code = d.u8()?;
            let sig = d.signature()?;
            let v = d.val(&sig)?;
            fields.push((code, v));
        }
        let body_start = (fend + 7) & !7;
        if body_start + body_len != bytes.len() {
            return Err(format!("length mismatch: {} + {} != {}", body_start, body_len, bytes.len()));
        }
        Ok(RawMsg {
            big,
            mtype: bytes[1],
            flags: bytes[2],
            version: bytes[3],
            serial,
            fields,
            body: bytes[body_start..].to_vec(),
        })
    }
}

/// Total length of the frame starting at `buf[0]`, if the fixed header is complete.
pub fn frame_len(buf: &[u8]) -> Option<R<usize>> {
    if buf.len() < 16 {
        return None;
    }
    let big = match buf[0] {
        b'l' => false,
        b'B' => true,
        c => return Some(Err(format!("bad endian byte {c:#x}"))),
    };
    let rd = |o: usize| {
        let b: [u8; 4] = buf[o..o + 4].try_into().unwrap();
        if big {
            u32::from_be_bytes(b)
        } else {
            u32::from_le_bytes(b)
        }
    };
    let body = rd(4) as usize;
    let fields = rd(12) as usize;
    let hdr = (16 + fields + 7) & !7;
    Some(Ok(hdr + body))
}

/// Split a byte stream into complete frames; returns the frames and the unconsumed rest.
pub fn split_frames(mut buf: &[u8]) -> R<(Vec<Vec<u8>>, Vec<u8>)> {
    let mut out = vec![];
    loop {
        match frame_len(buf) {
            None => return Ok((out, buf.to_vec())),
            Some(Err(e)) => return Err(e),
            Some(Ok(n)) => {
                if buf.len() < n {
                    return Ok((out, buf.to_vec()));
                }
                out.push(buf[..n].to_vec());
                buf = &buf[n..];
            }
        }
    }
}

/// Incremental framer for scripted peers reading what zbus writes.
#[derive(Default)]
pub struct Framer {
    pub buf: Vec<u8>,
}

impl Framer {
    pub fn feed(&mut self, bytes: &[u8]) {
        self.buf.extend_from_slice(bytes);
    }
    pub fn next(&mut self) -> R<Option<Vec<u8>>> {
        match frame_len(&self.buf) {
            None => Ok(None),
            Some(Err(e)) => Err(e),
            Some(Ok(n)) => {
                if self.buf.len() < n {
                    Ok(None)
                } else {
                    let f: Vec<u8> = self.buf.drain(..n).collect();
                    Ok(Some(f))
                }
            }
        }
    }
}
