//! Scripted peers: SASL line helpers, a conformant raw server/client handshake, a frame reader.
use std::{io, os::fd::OwnedFd};

use crate::{
    net::RawEnd,
    wire::{Framer, RawMsg},
};

pub const GUID: &str = "0123456789abcdef0123456789abcdef";

pub fn euid() -> u32 {
    unsafe { libc::geteuid() }
}

pub fn hex(s: &str) -> String {
    s.bytes().map(|b| format!("{b:02x}")).collect()
}

/// Buffered reader over the scripted end.
pub struct PeerReader {
    pub end: RawEnd,
    pub buf: Vec<u8>,
    pub fds: Vec<OwnedFd>,
    pub eof: bool,
}

impl PeerReader {
    pub fn new(end: RawEnd) -> PeerReader {
        PeerReader { end, buf: vec![], fds: vec![], eof: false }
    }

    async fn fill(&mut self) -> io::Result<bool> {
        if self.eof {
            return Ok(false);
        }
        let (b, f) = self.end.read().await?;
        if b.is_empty() {
            self.eof = true;
            return Ok(false);
        }
        self.buf.extend_from_slice(&b);
        self.fds.extend(f);
        Ok(true)
    }

    /// Next `\r\n`-terminated line (without the terminator); `None` at EOF.
    pub async fn line(&mut self) -> io::Result<Option<String>> {
        loop {
            if let Some(i) = self.buf.windows(2).position(|w| w == b"\r\n") {
                let l: Vec<u8> = self.buf.drain(..i + 2).collect();
                return Ok(Some(String::from_utf8_lossy(&l[..i]).into_owned()));
            }
            if !self.fill().await? {
                return Ok(None);
            }
        }
    }

    /// Next complete message frame; `None` at EOF.
    pub async fn frame(&mut self) -> io::Result<Option<Vec<u8>>> {
        loop {
            let mut fr = Framer { buf: std::mem::take(&mut self.buf) };
            let r = fr.next();
            self.buf = fr.buf;
            match r {
                Ok(Some(f)) => return Ok(Some(f)),
                Ok(None) => {}
                Err(e) => return Err(io::Error::new(io::ErrorKind::InvalidData, e)),
            }
            if !self.fill().await? {
                return Ok(None);
            }
        }
    }

    pub async fn msg(&mut self) -> io::Result<Option<RawMsg>> {
        match self.frame().await? {
            None => Ok(None),
            Some(f) => RawMsg::decode(&f).map(Some).map_err(|e| io::Error::new(io::ErrorKind::InvalidData, e)),
        }
    }
}

#[derive(Clone, Copy, Debug, PartialEq, Eq, serde::Serialize, serde::Deserialize)]
pub enum TailAt {
    /// In the same write as `OK <guid>`.
    Ok,
    /// In the same write as the reply to `NEGOTIATE_UNIX_FD` (falls back to `AfterBegin` if the
    /// client never negotiates).
    Agree,
    /// In its own write once `BEGIN` was seen.
    AfterBegin,
}

/// Conformant scripted *server* side of the SASL exchange with a zbus client.
/// `tail` (+fds) is written where `at` says: the way handshake leftovers arise.
pub async fn serve_sasl(
    r: &mut PeerReader,
    agree_fd: bool,
    tail: &[u8],
    tail_fds: Vec<OwnedFd>,
    at: TailAt,
) -> Result<(), String> {
    let mut tail_fds = Some(tail_fds);
    let mut authed = false;
    let mut tail_sent = false;
    loop {
        let Some(l) = r.line().await.map_err(|e| e.to_string())? else {
            return Err("eof in handshake".into());
        };
        let l = l.trim_start_matches('\0').to_string();
        if l.starts_with("AUTH") {
            authed = true;
            let mut out = format!("OK {GUID}\r\n").into_bytes();
            if at == TailAt::Ok {
                out.extend_from_slice(tail);
                tail_sent = true;
                r.end.write_fds(&out, tail_fds.take().unwrap_or_default());
            } else {
                r.end.write(&out);
            }
        } else if l == "NEGOTIATE_UNIX_FD" {
            if !authed {
                return Err("NEGOTIATE before AUTH".into());
            }
            let mut out = if agree_fd { b"AGREE_UNIX_FD\r\n".to_vec() } else { b"ERROR no fds\r\n".to_vec() };
            if at == TailAt::Agree && !tail_sent {
                out.extend_from_slice(tail);
                tail_sent = true;
                r.end.write_fds(&out, tail_fds.take().unwrap_or_default());
            } else {
                r.end.write(&out);
            }
        } else if l == "BEGIN" {
            if !tail_sent && !tail.is_empty() {
                r.end.write_fds(tail, tail_fds.take().unwrap_or_default());
            }
            return Ok(());
        } else {
            r.end.write(b"ERROR\r\n");
        }
    }
}

/// Scripted *client* side against a zbus p2p server: everything pipelined in one write, followed
/// by `tail` (first messages) in the same write.
pub fn client_sasl_bytes(uid: u32, negotiate_fd: bool, tail: &[u8]) -> Vec<u8> {
    let mut out = format!("\0AUTH EXTERNAL {}\r\n", hex(&uid.to_string())).into_bytes();
    if negotiate_fd {
        out.extend_from_slice(b"NEGOTIATE_UNIX_FD\r\n");
    }
    out.extend_from_slice(b"BEGIN\r\n");
    out.extend_from_slice(tail);
    out
}

/// Read and discard the server's handshake replies (`n` lines).
pub async fn skip_lines(r: &mut PeerReader, n: usize) -> Result<Vec<String>, String> {
    let mut v = vec![];
    for _ in 0..n {
        match r.line().await.map_err(|e| e.to_string())? {
            Some(l) => v.push(l),
            None => return Err("eof while reading handshake replies".into()),
        }
    }
    Ok(v)
}
