//! A conformant `org.freedesktop.DBus` driver model whose timing (and third-party traffic) is
//! adversarial and seeded.  It answers Hello, AddMatch, RemoveMatch, GetNameOwner, NameHasOwner,
//! RequestName, ReleaseName and records everything it is asked.
use std::{
    collections::BTreeMap,
    sync::{Arc, Mutex},
};

use crate::{
    kernel::World,
    net::RawEnd,
    peers::{serve_sasl, PeerReader, TailAt},
    wire::{RawMsg, Val, T_CALL},
};

pub const DRIVER: &str = "org.freedesktop.DBus";
pub const DRIVER_PATH: &str = "/org/freedesktop/DBus";
pub const ME: &str = ":1.100";

pub const FLAG_ALLOW_REPLACEMENT: u32 = 1;
pub const FLAG_REPLACE_EXISTING: u32 = 2;
pub const FLAG_DO_NOT_QUEUE: u32 = 4;

#[derive(Clone, Debug, PartialEq)]
pub enum Owner {
    Nobody,
    Me,
    /// another connection; does it allow replacement?
    Other(bool),
}

#[derive(Clone, Debug)]
pub struct NameState {
    pub owner: Owner,
    pub me_queued: bool,
    pub my_flags: u32,
    /// the other connection waits in the queue behind us
    pub other_queued: bool,
}

impl Default for NameState {
    fn default() -> Self {
        NameState { owner: Owner::Nobody, me_queued: false, my_flags: 0, other_queued: false }
    }
}

#[derive(Default)]
pub struct BusState {
    /// (is_add, rule, scheduler step)
    pub match_calls: Vec<(bool, String, u64)>,
    /// rules currently registered (a bus keeps duplicates)
    pub live_rules: Vec<String>,
    /// RemoveMatch for a rule that was not registered
    pub bad_removes: Vec<String>,
    /// AddMatch for a rule that was already registered
    pub dup_adds: Vec<String>,
    pub names: BTreeMap<String, NameState>,
    /// well-known name -> unique owner, for GetNameOwner / NameHasOwner
    pub owners: BTreeMap<String, String>,
    /// (member, first string argument, flags, reply code) in arrival order
    pub calls: Vec<(String, String, u32, u32)>,
    pub serial: u32,
    pub hello_done: bool,
    /// bytes written right before / right after the reply to the next GetNameOwner
    pub lookup_script: Option<(Vec<u8>, Vec<u8>)>,
    /// how many of the next AddMatch calls the bus refuses (as a bus out of match-rule quota does)
    pub refuse_adds: u32,
    /// rules whose AddMatch was refused
    pub refused: Vec<String>,
    /// the owner of the next name we get queued for releases it at that very instant: NameAcquired follows the
    /// InQueue reply in the same write
    pub handover_after_queue: bool,
    /// how often that happened
    pub handovers: u32,
}

pub type Bus = Arc<Mutex<BusState>>;

fn next_serial(bus: &Bus) -> u32 {
    let mut b = bus.lock().unwrap();
    b.serial += 1;
    10_000 + b.serial
}

pub fn driver_signal(bus: &Bus, member: &str, body: &[Val], to_me: bool) -> RawMsg {
    let mut m = RawMsg::signal(next_serial(bus), DRIVER_PATH, DRIVER, member).sender(DRIVER).body(body);
    if to_me {
        m = m.destination(ME);
    }
    m
}

/// A signal that claims to be a driver signal but comes from an ordinary peer.
pub fn forged_signal(bus: &Bus, member: &str, body: &[Val], from: &str) -> RawMsg {
    RawMsg::signal(next_serial(bus), DRIVER_PATH, DRIVER, member).sender(from).destination(ME).body(body)
}

pub fn peer_signal(bus: &Bus, from: &str, path: &str, iface: &str, member: &str, body: &[Val]) -> RawMsg {
    RawMsg::signal(next_serial(bus), path, iface, member).sender(from).body(body)
}

/// Request by us, as the specification describes it.  Returns the reply code and the driver
/// signals to send to us (before the reply, as dbus-daemon does).
pub fn request_name(st: &mut NameState, flags: u32) -> (u32, Vec<&'static str>) {
    st.my_flags = flags;
    match st.owner.clone() {
        Owner::Nobody => {
            st.owner = Owner::Me;
            st.me_queued = false;
            (1, vec!["NameAcquired"])
        }
        Owner::Me => (4, vec![]),
        Owner::Other(allows) => {
            if flags & FLAG_REPLACE_EXISTING != 0 && allows {
                st.owner = Owner::Me;
                st.me_queued = false;
                st.other_queued = true;
                (1, vec!["NameAcquired"])
            } else if flags & FLAG_DO_NOT_QUEUE != 0 {
                st.me_queued = false;
                (3, vec![])
            } else {
                st.me_queued = true;
                (2, vec![])
            }
        }
    }
}

pub fn release_name(st: &mut NameState) -> (u32, Vec<&'static str>) {
    match st.owner.clone() {
        Owner::Me => {
            st.owner = if st.other_queued { Owner::Other(false) } else { Owner::Nobody };
            st.other_queued = false;
            (1, vec!["NameLost"])
        }
        _ if st.me_queued => {
            st.me_queued = false;
            (1, vec![])
        }
        Owner::Other(_) => (3, vec![]),
        Owner::Nobody => (2, vec![]),
    }
}

/// The other connection gives the name up: we get it if we were queued.
pub fn other_releases(st: &mut NameState) -> Vec<&'static str> {
    if let Owner::Other(_) = st.owner {
        if st.me_queued {
            st.owner = Owner::Me;
            st.me_queued = false;
            return vec!["NameAcquired"];
        }
        st.owner = Owner::Nobody;
    }
    vec![]
}

/// The other connection requests the name with ReplaceExisting.
pub fn other_takes(st: &mut NameState) -> Vec<&'static str> {
    match st.owner {
        Owner::Me if st.my_flags & FLAG_ALLOW_REPLACEMENT != 0 => {
            st.owner = Owner::Other(false);
            st.me_queued = st.my_flags & FLAG_DO_NOT_QUEUE == 0;
            vec!["NameLost"]
        }
        Owner::Nobody => {
            st.owner = Owner::Other(false);
            vec![]
        }
        _ => vec![],
    }
}

pub struct BusCfg {
    /// replies are preceded by a seeded pause
    pub delays: bool,
    /// extra bytes written together with the Hello reply
    pub after_hello: Vec<u8>,
}

impl Default for BusCfg {
    fn default() -> Self {
        BusCfg { delays: true, after_hello: vec![] }
    }
}

/// Run the bus on `raw` until the client goes away.
pub async fn run_bus(w: World, raw: RawEnd, bus: Bus, cfg: BusCfg) {
    let mut r = PeerReader::new(raw.clone());
    if serve_sasl(&mut r, true, &[], vec![], TailAt::AfterBegin).await.is_err() {
        return;
    }
    loop {
        let m = match r.msg().await {
            Ok(Some(m)) => m,
            _ => break,
        };
        if m.mtype != T_CALL || m.get_destination() != Some(DRIVER) {
            continue;
        }
        let args = m.body_vals().unwrap_or_default();
        let s0 = args.first().and_then(|v| v.as_str()).unwrap_or("").to_string();
        let u1 = args.get(1).and_then(|v| v.as_u32()).unwrap_or(0);
        let member = m.member().unwrap_or("").to_string();
        let mut reply_code = 0u32;
        if cfg.delays {
            match w.choose("busdelay", 4) {
                0 => {}
                1 => w.yield_now().await,
                2 => w.sleep_ns(10_000).await,
                _ => w.sleep_ns(1_000_000).await,
            }
        }
        let ret = |vals: &[Val]| RawMsg::ret(next_serial(&bus), m.serial).sender(DRIVER).destination(ME).body(vals);
        let err = |name: &str, text: &str| RawMsg::error(next_serial(&bus), m.serial, name).sender(DRIVER).destination(ME).body(&[Val::str(text)]);
        let mut out: Vec<u8> = vec![];
        match member.as_str() {
            "Hello" => {
                bus.lock().unwrap().hello_done = true;
                out.extend(ret(&[Val::str(ME)]).encode());
                out.extend(driver_signal(&bus, "NameAcquired", &[Val::str(ME)], true).encode());
                out.extend_from_slice(&cfg.after_hello);
            }
            "AddMatch" if bus.lock().unwrap().refuse_adds > 0 => {
                let mut b = bus.lock().unwrap();
                b.refuse_adds -= 1;
                b.refused.push(s0.clone());
                drop(b);
                w.count("fault.bus_refuses_add_match");
                w.log(|| format!("bus: AddMatch {s0} REFUSED"));
                out.extend(err("org.freedesktop.DBus.Error.LimitsExceeded", "too many match rules").encode());
            }
            "AddMatch" => {
                let step = w.steps();
                let mut b = bus.lock().unwrap();
                if b.live_rules.contains(&s0) {
                    b.dup_adds.push(s0.clone());
                }
                b.live_rules.push(s0.clone());
                b.match_calls.push((true, s0.clone(), step));
                drop(b);
                w.log(|| format!("bus: AddMatch {s0}"));
                out.extend(ret(&[]).encode());
            }
            "RemoveMatch" => {
                let step = w.steps();
                let mut b = bus.lock().unwrap();
                b.match_calls.push((false, s0.clone(), step));
                let found = b.live_rules.iter().position(|x| *x == s0);
                match found {
                    Some(i) => {
                        b.live_rules.remove(i);
                        drop(b);
                        w.log(|| format!("bus: RemoveMatch {s0}"));
                        out.extend(ret(&[]).encode());
                    }
                    None => {
                        b.bad_removes.push(s0.clone());
                        drop(b);
                        out.extend(err("org.freedesktop.DBus.Error.MatchRuleNotFound", "no such rule").encode());
                    }
                }
            }
            "GetNameOwner" => {
                let script = bus.lock().unwrap().lookup_script.take();
                let (pre, post) = script.unwrap_or_default();
                out.extend(pre);
                let o = bus.lock().unwrap().owners.get(&s0).cloned();
                match o {
                    Some(u) => out.extend(ret(&[Val::str(&u)]).encode()),
                    None => out.extend(err("org.freedesktop.DBus.Error.NameHasNoOwner", "no owner").encode()),
                }
                out.extend(post);
            }
            "NameHasOwner" => {
                let o = bus.lock().unwrap().owners.contains_key(&s0);
                out.extend(ret(&[Val::Bool(o)]).encode());
            }
            "RequestName" => {
                let (code, sigs) = {
                    let mut b = bus.lock().unwrap();
                    let st = b.names.entry(s0.clone()).or_default();
                    request_name(st, u1)
                };
                for s in sigs {
                    out.extend(driver_signal(&bus, s, &[Val::str(&s0)], true).encode());
                }
                reply_code = code;
                out.extend(ret(&[Val::U32(code)]).encode());
                if code == 2 && bus.lock().unwrap().handover_after_queue {
                    let sigs = {
                        let mut b = bus.lock().unwrap();
                        b.handover_after_queue = false;
                        b.handovers += 1;
                        let st = b.names.entry(s0.clone()).or_default();
                        other_releases(st)
                    };
                    for s in sigs {
                        out.extend(driver_signal(&bus, s, &[Val::str(&s0)], true).encode());
                    }
                }
            }
            "ReleaseName" => {
                let (code, sigs) = {
                    let mut b = bus.lock().unwrap();
                    let st = b.names.entry(s0.clone()).or_default();
                    release_name(st)
                };
                for s in sigs {
                    out.extend(driver_signal(&bus, s, &[Val::str(&s0)], true).encode());
                }
                reply_code = code;
                out.extend(ret(&[Val::U32(code)]).encode());
            }
            _ => out.extend(err("org.freedesktop.DBus.Error.UnknownMethod", "not modelled").encode()),
        }
        bus.lock().unwrap().calls.push((member.clone(), s0.clone(), u1, reply_code));
        raw.write(&out);
    }
}
