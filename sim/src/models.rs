//! Small executable reference models and a brute-force linearizability checker (WGL-style).
use std::collections::HashSet;

/// One completed (or pending) operation of a concurrent history, stamped with the simulator's
/// global event sequence number at invocation and at return.
#[derive(Clone, Debug)]
pub struct HistOp<O, R> {
    pub invoke: u64,
    /// `u64::MAX` = never returned
    pub ret: u64,
    pub op: O,
    pub result: Option<R>,
    pub who: String,
}

pub trait SeqModel: Clone {
    type Op;
    type Ret;
    /// Apply `op`; return whether `result` is an acceptable outcome in this state.
    fn apply(&mut self, op: &Self::Op, result: &Self::Ret) -> bool;
    /// Apply `op` whose result is unknown (it never returned).
    fn apply_blind(&mut self, op: &Self::Op);
    fn key(&self) -> u64;
}

/// Is there a total order of the operations, consistent with real time (an operation that returned
/// before another was invoked comes first), in which every result is acceptable to the model?
pub fn linearizable<M: SeqModel>(init: &M, hist: &[HistOp<M::Op, M::Ret>]) -> bool {
    assert!(hist.len() <= 24, "history too long for the brute-force checker");
    let mut seen: HashSet<(u32, u64)> = HashSet::new();
    fn go<M: SeqModel>(m: &M, hist: &[HistOp<M::Op, M::Ret>], done: u32, seen: &mut HashSet<(u32, u64)>) -> bool {
        let n = hist.len();
        if (0..n).all(|i| done & (1 << i) != 0 || hist[i].ret == u64::MAX) {
            return true;
        }
        if !seen.insert((done, m.key())) {
            return false;
        }
        // earliest return among the not yet linearized, completed operations
        let min_ret = (0..n).filter(|i| done & (1 << i) == 0).map(|i| hist[i].ret).min().unwrap_or(u64::MAX);
        for i in 0..n {
            if done & (1 << i) != 0 || hist[i].invoke > min_ret {
                continue;
            }
            let mut m2 = m.clone();
            let ok = match &hist[i].result {
                Some(r) => m2.apply(&hist[i].op, r),
                None => {
                    m2.apply_blind(&hist[i].op);
                    true
                }
            };
            if ok && go(&m2, hist, done | (1 << i), seen) {
                return true;
            }
        }
        false
    }
    go(init, hist, 0, &mut seen)
}
