//! The interface corpus: real `#[zbus::interface]` implementations whose handlers log every
//! invocation and return a fixed function of their arguments, plus a table describing each method
//! to the independent oracle (signatures and the expected reply for given wire values).
use std::{
    collections::HashMap,
    sync::{Arc, Mutex},
};

use zbus::{fdo, interface, object_server::SignalEmitter, zvariant::OwnedValue, DBusError};

use crate::{kernel::World, wire::Val};

#[derive(Clone, Debug, PartialEq)]
pub struct LogEntry {
    pub iface: &'static str,
    pub member: &'static str,
    pub args: String,
    pub t_start: u64,
    pub t_end: u64,
    pub instance: u32,
}

pub type Log = Arc<Mutex<Vec<LogEntry>>>;

pub fn new_log() -> Log {
    Arc::new(Mutex::new(vec![]))
}

#[derive(Debug, DBusError)]
#[zbus(prefix = "org.sim.Error")]
pub enum SimError {
    #[zbus(error)]
    ZBus(zbus::Error),
    Negative(String),
    TooBig(String),
}

/// Interface A: spawning enabled (the default).
pub struct A {
    pub log: Log,
    pub w: World,
    pub instance: u32,
    pub counter: u64,
    pub label: String,
    pub level: u32,
    pub secret: i32,
    pub quiet: u16,
    pub fixed: u8,
}

impl A {
    pub fn new(log: &Log, w: &World, instance: u32) -> A {
        A { log: log.clone(), w: w.clone(), instance, counter: 0, label: format!("label-{instance}"), level: 1, secret: 0, quiet: 7, fixed: 42 }
    }
    fn rec(&self, member: &'static str, args: String, t_start: u64) {
        self.log.lock().unwrap().push(LogEntry { iface: "org.sim.A", member, args, t_start, t_end: self.w.now(), instance: self.instance });
    }
}

#[interface(name = "org.sim.A")]
impl A {
    fn add(&self, a: i32, b: i32) -> i32 {
        self.rec("Add", format!("{a},{b}"), self.w.now());
        a.wrapping_add(b)
    }

    async fn concat(&self, a: &str, b: String) -> String {
        let t = self.w.now();
        self.w.yield_now().await;
        self.rec("Concat", format!("{a},{b}"), t);
        format!("{a}{b}")
    }

    fn bump(&mut self, by: u64) -> u64 {
        self.counter = self.counter.wrapping_add(by);
        self.rec("Bump", format!("{by}"), self.w.now());
        self.counter
    }

    fn half(&self, v: u32) -> fdo::Result<u32> {
        self.rec("Half", format!("{v}"), self.w.now());
        if v % 2 == 1 {
            Err(fdo::Error::Failed(format!("{v} is odd")))
        } else {
            Ok(v / 2)
        }
    }

    async fn pair(&mut self, a: u8, b: bool) -> (u8, bool) {
        let t = self.w.now();
        self.w.yield_now().await;
        self.rec("Pair", format!("{a},{b}"), t);
        (a.wrapping_add(1), !b)
    }

    fn nothing(&self) {
        self.rec("Nothing", String::new(), self.w.now());
    }

    fn sum(&self, v: Vec<u16>) -> u32 {
        self.rec("Sum", format!("{v:?}"), self.w.now());
        v.iter().map(|x| *x as u32).sum()
    }

    fn count(&self, m: HashMap<String, u32>) -> u32 {
        let mut keys: Vec<_> = m.iter().collect();
        keys.sort();
        self.rec("Count", format!("{keys:?}"), self.w.now());
        m.len() as u32
    }

    fn describe(&self, v: OwnedValue) -> String {
        let s = v.value_signature().to_string();
        self.rec("Describe", s.clone(), self.w.now());
        s
    }

    fn checked(&self, v: i16) -> Result<i16, SimError> {
        self.rec("Checked", format!("{v}"), self.w.now());
        if v < 0 {
            Err(SimError::Negative(format!("{v}")))
        } else if v > 1000 {
            Err(SimError::TooBig(format!("{v}")))
        } else {
            Ok(v)
        }
    }

    async fn sleepy(&self, us: u32) -> u32 {
        let t = self.w.now();
        self.log.lock().unwrap().push(LogEntry { iface: "org.sim.A", member: "Sleepy.start", args: format!("{us}"), t_start: t, t_end: t, instance: self.instance });
        self.w.sleep_ns(us as u64 * 1000).await;
        self.rec("Sleepy", format!("{us}"), t);
        us
    }

    /// File descriptors as arguments and results: returns them in the other order.
    fn swap_fds(&self, first: zbus::zvariant::OwnedFd, rest: Vec<zbus::zvariant::OwnedFd>) -> (Vec<zbus::zvariant::OwnedFd>, zbus::zvariant::OwnedFd) {
        use std::os::fd::AsFd;
        let tags: Vec<u64> = std::iter::once(&first).chain(rest.iter()).map(|f| crate::net::fd_tag(f.as_fd())).collect();
        self.rec("SwapFds", format!("{tags:x?}"), self.w.now());
        (rest, first)
    }

    fn wide(&self, a: u8, b: i64, c: f64, d: &str, e: (u32, String)) -> (i64, String) {
        self.rec("Wide", format!("{a},{b},{c},{d},{e:?}"), self.w.now());
        (b.wrapping_add(a as i64), format!("{d}{}", e.1))
    }

    // ---- properties ----
    #[zbus(property)]
    fn label(&self) -> String {
        self.label.clone()
    }
    #[zbus(property)]
    fn set_label(&mut self, v: String) {
        self.label = v;
    }

    #[zbus(property(emits_changed_signal = "invalidates"))]
    fn level(&self) -> u32 {
        self.level
    }
    #[zbus(property)]
    fn set_level(&mut self, v: u32) -> fdo::Result<()> {
        if v > 100 {
            return Err(fdo::Error::InvalidArgs("level above 100".into()));
        }
        self.level = v;
        Ok(())
    }

    #[zbus(property(emits_changed_signal = "false"))]
    fn quiet(&self) -> u16 {
        self.quiet
    }
    #[zbus(property)]
    fn set_quiet(&mut self, v: u16) {
        self.quiet = v;
    }

    #[zbus(property(emits_changed_signal = "const"))]
    fn fixed(&self) -> u8 {
        self.fixed
    }

    #[zbus(property)]
    fn counter(&self) -> u64 {
        self.counter
    }

    // write-only
    #[zbus(property)]
    fn set_secret(&mut self, v: i32) {
        self.secret = v;
    }

    // ---- signals ----
    #[zbus(signal)]
    pub async fn tick(emitter: &SignalEmitter<'_>, n: u32, what: &str) -> zbus::Result<()>;
}

/// Interface B: `spawn = false`, handlers log start and end and sleep on the simulated clock.
pub struct B {
    pub log: Log,
    pub w: World,
    pub instance: u32,
}

impl B {
    pub fn new(log: &Log, w: &World, instance: u32) -> B {
        B { log: log.clone(), w: w.clone(), instance }
    }
}

#[interface(name = "org.sim.B", spawn = false)]
impl B {
    async fn work(&self, id: u32, us: u32) -> u32 {
        let t = self.w.now();
        self.log.lock().unwrap().push(LogEntry { iface: "org.sim.B", member: "start", args: format!("{id}"), t_start: t, t_end: t, instance: self.instance });
        match us {
            0 => {}
            1 => self.w.yield_now().await,
            n => self.w.sleep_ns(n as u64 * 1000).await,
        }
        self.log.lock().unwrap().push(LogEntry { iface: "org.sim.B", member: "Work", args: format!("{id}"), t_start: t, t_end: self.w.now(), instance: self.instance });
        id
    }

    async fn work_mut(&mut self, id: u32, us: u32) -> u32 {
        let t = self.w.now();
        self.log.lock().unwrap().push(LogEntry { iface: "org.sim.B", member: "start", args: format!("{id}"), t_start: t, t_end: t, instance: self.instance });
        match us {
            0 => {}
            1 => self.w.yield_now().await,
            n => self.w.sleep_ns(n as u64 * 1000).await,
        }
        self.log.lock().unwrap().push(LogEntry { iface: "org.sim.B", member: "WorkMut", args: format!("{id}"), t_start: t, t_end: self.w.now(), instance: self.instance });
        id
    }

    /// A property whose `&mut self` setter takes a while: a writer on this interface's lock that does not come
    /// from the (serialized) method dispatch but from the Properties interface.
    #[zbus(property)]
    fn slow(&self) -> u32 {
        0
    }
    #[zbus(property)]
    async fn set_slow(&mut self, us: u32) {
        let t = self.w.now();
        match us {
            0 => {}
            1 => self.w.yield_now().await,
            n => self.w.sleep_ns(n as u64 * 1000).await,
        }
        self.log.lock().unwrap().push(LogEntry { iface: "org.sim.B.prop", member: "SetSlow", args: format!("{us}"), t_start: t, t_end: self.w.now(), instance: self.instance });
    }
}

/// Interface C: an empty marker interface (for registration histories).
pub struct C(pub u32);

#[interface(name = "org.sim.C")]
impl C {
    fn whoami(&self) -> u32 {
        self.0
    }
}

/// Interface D: a second marker interface with one property.
pub struct D(pub u32);

#[interface(name = "org.sim.D")]
impl D {
    fn whoami(&self) -> u32 {
        self.0
    }
    /// An async getter that really yields (so that whoever computes this interface's properties,
    /// e.g. for InterfacesAdded, can be overtaken).
    #[zbus(property)]
    async fn number(&self) -> u32 {
        crate::kernel::yield_once().await;
        self.0
    }
}

// ---------------------------------------------------------------------------------------------
// The oracle's view of interface A's methods.

pub enum Expect {
    /// method return with these values
    Return(Vec<Val>),
    /// error reply with this name
    Error(&'static str),
}

pub struct MethodSpec {
    pub name: &'static str,
    pub in_sig: &'static str,
    pub out_sig: &'static str,
    /// argument rendering as the handler logs it, and the expected reply
    pub model: fn(&[Val]) -> (String, Expect),
    pub mutable: bool,
}

fn i32v(v: &Val) -> i32 {
    match v {
        Val::I32(x) => *x,
        _ => 0,
    }
}
fn strv(v: &Val) -> String {
    v.as_str().unwrap_or("").to_string()
}

pub fn methods_a() -> Vec<MethodSpec> {
    vec![
        MethodSpec {
            name: "Add",
            in_sig: "ii",
            out_sig: "i",
            mutable: false,
            model: |a| (format!("{},{}", i32v(&a[0]), i32v(&a[1])), Expect::Return(vec![Val::I32(i32v(&a[0]).wrapping_add(i32v(&a[1])))])),
        },
        MethodSpec {
            name: "Concat",
            in_sig: "ss",
            out_sig: "s",
            mutable: false,
            model: |a| (format!("{},{}", strv(&a[0]), strv(&a[1])), Expect::Return(vec![Val::Str(format!("{}{}", strv(&a[0]), strv(&a[1])))])),
        },
        MethodSpec {
            name: "Half",
            in_sig: "u",
            out_sig: "u",
            mutable: false,
            model: |a| {
                let v = a[0].as_u32().unwrap_or(0);
                (format!("{v}"), if v % 2 == 1 { Expect::Error("org.freedesktop.DBus.Error.Failed") } else { Expect::Return(vec![Val::U32(v / 2)]) })
            },
        },
        MethodSpec {
            name: "Pair",
            in_sig: "yb",
            out_sig: "yb",
            mutable: true,
            model: |a| {
                let (x, b) = match (&a[0], &a[1]) {
                    (Val::Byte(x), Val::Bool(b)) => (*x, *b),
                    _ => (0, false),
                };
                (format!("{x},{b}"), Expect::Return(vec![Val::Byte(x.wrapping_add(1)), Val::Bool(!b)]))
            },
        },
        MethodSpec { name: "Nothing", in_sig: "", out_sig: "", mutable: false, model: |_| (String::new(), Expect::Return(vec![])) },
        MethodSpec {
            name: "Sum",
            in_sig: "aq",
            out_sig: "u",
            mutable: false,
            model: |a| {
                let xs: Vec<u16> = match &a[0] {
                    Val::Array(_, items) => items.iter().map(|v| if let Val::U16(x) = v { *x } else { 0 }).collect(),
                    _ => vec![],
                };
                (format!("{xs:?}"), Expect::Return(vec![Val::U32(xs.iter().map(|x| *x as u32).sum())]))
            },
        },
        MethodSpec {
            name: "Describe",
            in_sig: "v",
            out_sig: "s",
            mutable: false,
            model: |a| {
                let s = a[0].unvariant().sig();
                (s.clone(), Expect::Return(vec![Val::Str(s)]))
            },
        },
        MethodSpec {
            name: "Checked",
            in_sig: "n",
            out_sig: "n",
            mutable: false,
            model: |a| {
                let v = if let Val::I16(x) = a[0] { x } else { 0 };
                (
                    format!("{v}"),
                    if v < 0 {
                        Expect::Error("org.sim.Error.Negative")
                    } else if v > 1000 {
                        Expect::Error("org.sim.Error.TooBig")
                    } else {
                        Expect::Return(vec![Val::I16(v)])
                    },
                )
            },
        },
        MethodSpec {
            name: "Sleepy",
            in_sig: "u",
            out_sig: "u",
            mutable: false,
            model: |a| {
                let v = a[0].as_u32().unwrap_or(0);
                (format!("{v}"), Expect::Return(vec![Val::U32(v)]))
            },
        },
        MethodSpec {
            name: "Wide",
            in_sig: "yxds(us)",
            out_sig: "xs",
            mutable: false,
            model: |a| {
                let (x, b, c, d) = match (&a[0], &a[1], &a[2], &a[3]) {
                    (Val::Byte(x), Val::I64(b), Val::F64(c), Val::Str(d)) => (*x, *b, *c, d.clone()),
                    _ => (0, 0, 0.0, String::new()),
                };
                let (e0, e1) = match &a[4] {
                    Val::Struct(f) => (f[0].as_u32().unwrap_or(0), strv(&f[1])),
                    _ => (0, String::new()),
                };
                (format!("{x},{b},{c},{d},{:?}", (e0, e1.clone())), Expect::Return(vec![Val::I64(b.wrapping_add(x as i64)), Val::Str(format!("{d}{e1}"))]))
            },
        },
    ]
}

/// A seeded wire value of the given single complete type.
pub fn gen_val(rng: &mut crate::rng::Rng, sig: &str) -> Val {
    let b = sig.as_bytes();
    match b[0] {
        b'y' => Val::Byte(rng.below(256) as u8),
        b'b' => Val::Bool(rng.chance(1, 2)),
        b'n' => Val::I16(*rng.pick(&[-5i16, 0, 7, 1000, 1001, i16::MAX, i16::MIN])),
        b'q' => Val::U16(rng.below(65536) as u16),
        b'i' => Val::I32(*rng.pick(&[0i32, 1, -1, i32::MAX, i32::MIN, 12345])),
        b'u' => Val::U32(*rng.pick(&[0u32, 1, 2, 3, 100, 101, u32::MAX])),
        b'x' => Val::I64(*rng.pick(&[0i64, -9, i64::MAX, 1 << 40])),
        b't' => Val::U64(rng.next_u64()),
        b'd' => Val::F64(*rng.pick(&[0.0f64, 1.5, -2.25, 1e300])),
        b's' => Val::Str(rng.pick(&["", "a", "hello", "with space", "ünï"]).to_string()),
        b'o' => Val::Path(rng.pick(&["/", "/a", "/a/b"]).to_string()),
        b'g' => Val::Sig(rng.pick(&["", "i", "a{sv}"]).to_string()),
        b'v' => {
            let inner = *rng.pick(&["u", "s", "ay", "(is)", "d"]);
            Val::Variant(Box::new(gen_val(rng, inner)))
        }
        b'a' => {
            let esig = &sig[1..];
            let n = rng.below(4);
            if esig.starts_with('{') {
                // dictionary: unique keys
                let parts = crate::wire::split_sig(&esig[1..esig.len() - 1]).unwrap();
                let items = (0..n)
                    .map(|i| {
                        let k = match parts[0].as_str() {
                            "s" => Val::Str(format!("k{i}")),
                            "u" => Val::U32(i as u32),
                            _ => gen_val(rng, &parts[0]),
                        };
                        Val::DictEntry(Box::new(k), Box::new(gen_val(rng, &parts[1])))
                    })
                    .collect();
                return Val::Array(esig.to_string(), items);
            }
            Val::Array(esig.to_string(), (0..n).map(|_| gen_val(rng, esig)).collect())
        }
        b'(' => {
            let inner = &sig[1..sig.len() - 1];
            Val::Struct(crate::wire::split_sig(inner).unwrap().iter().map(|s| gen_val(rng, s)).collect())
        }
        b'{' => {
            let inner = &sig[1..sig.len() - 1];
            let parts = crate::wire::split_sig(inner).unwrap();
            Val::DictEntry(Box::new(gen_val(rng, &parts[0])), Box::new(gen_val(rng, &parts[1])))
        }
        _ => Val::Byte(0),
    }
}

pub fn gen_args(rng: &mut crate::rng::Rng, sig: &str) -> Vec<Val> {
    crate::wire::split_sig(sig).unwrap().iter().map(|s| gen_val(rng, s)).collect()
}

/// Interface E: a third marker interface.
pub struct E(pub u32);

#[interface(name = "org.sim.E")]
impl E {
    fn whoami(&self) -> u32 {
        self.0
    }
}

/// Interface H: handlers that call back into the object server.
pub struct H {
    pub w: World,
    pub n: u32,
}

#[interface(name = "org.sim.H")]
impl H {
    async fn add_child(&self, n: u32, #[zbus(object_server)] server: &zbus::ObjectServer) -> bool {
        self.w.yield_now().await;
        server.at(format!("/h/c{n}"), C(n)).await.unwrap_or(false)
    }

    async fn remove_child(&mut self, n: u32, #[zbus(object_server)] server: &zbus::ObjectServer) -> bool {
        server.remove::<C, _>(format!("/h/c{n}")).await.is_ok()
    }

    async fn emit(&self, #[zbus(signal_emitter)] emitter: SignalEmitter<'_>) -> u32 {
        let _ = Self::poked(&emitter, self.n).await;
        self.n
    }

    /// A `&mut self` handler that unregisters its own interface.
    async fn close(&mut self, #[zbus(object_server)] server: &zbus::ObjectServer) -> bool {
        self.w.yield_now().await;
        server.remove::<H, _>("/h").await.is_ok()
    }

    /// A `&self` handler that unregisters its own interface.
    async fn detach(&self, #[zbus(object_server)] server: &zbus::ObjectServer) -> bool {
        server.remove::<H, _>("/h").await.is_ok()
    }

    /// A getter that registers an object.
    #[zbus(property)]
    async fn probe(&self, #[zbus(object_server)] server: &zbus::ObjectServer) -> u32 {
        let _ = server.at("/h/probe", D(self.n)).await;
        self.n
    }

    /// A setter that registers (or removes) an object.
    #[zbus(property)]
    async fn set_probe(&mut self, v: u32, #[zbus(object_server)] server: &zbus::ObjectServer) {
        self.n = v;
        if v % 2 == 0 {
            let _ = server.at(format!("/h/set{v}"), E(v)).await;
        } else {
            let _ = server.remove::<D, _>("/h/probe").await;
        }
    }

    #[zbus(property)]
    fn plain(&self) -> u32 {
        self.n
    }

    #[zbus(signal)]
    pub async fn poked(emitter: &SignalEmitter<'_>, n: u32) -> zbus::Result<()>;
}

/// The client-side view of interface A, generated by `#[zbus::proxy]` (async and blocking).
#[zbus::proxy(interface = "org.sim.A", default_service = "org.sim.Svc", default_path = "/a")]
pub trait SimA {
    fn add(&self, a: i32, b: i32) -> zbus::Result<i32>;
    fn concat(&self, a: &str, b: &str) -> zbus::Result<String>;
    fn bump(&self, by: u64) -> zbus::Result<u64>;
    fn half(&self, v: u32) -> zbus::Result<u32>;
    fn pair(&self, a: u8, b: bool) -> zbus::Result<(u8, bool)>;
    fn nothing(&self) -> zbus::Result<()>;
    fn sum(&self, v: &[u16]) -> zbus::Result<u32>;
    fn count(&self, m: HashMap<String, u32>) -> zbus::Result<u32>;
    fn describe(&self, v: &zbus::zvariant::Value<'_>) -> zbus::Result<String>;
    fn checked(&self, v: i16) -> zbus::Result<i16>;
    fn wide(&self, a: u8, b: i64, c: f64, d: &str, e: (u32, &str)) -> zbus::Result<(i64, String)>;
    fn swap_fds(&self, first: zbus::zvariant::Fd<'_>, rest: Vec<zbus::zvariant::Fd<'_>>) -> zbus::Result<(Vec<zbus::zvariant::OwnedFd>, zbus::zvariant::OwnedFd)>;

    #[zbus(property)]
    fn label(&self) -> zbus::Result<String>;
    #[zbus(property)]
    fn set_label(&self, v: &str) -> zbus::Result<()>;
    #[zbus(property)]
    fn level(&self) -> zbus::Result<u32>;
    #[zbus(property)]
    fn set_level(&self, v: u32) -> zbus::Result<()>;
    #[zbus(property)]
    fn quiet(&self) -> zbus::Result<u16>;
    #[zbus(property)]
    fn set_quiet(&self, v: u16) -> zbus::Result<()>;
    #[zbus(property)]
    fn fixed(&self) -> zbus::Result<u8>;
    #[zbus(property)]
    fn counter(&self) -> zbus::Result<u64>;

    #[zbus(signal)]
    fn tick(&self, n: u32, what: &str) -> zbus::Result<()>;
}

/// Dictionaries compare as sets of entries: sort them (recursively) before comparing wire values.
pub fn norm(v: &Val) -> Val {
    match v {
        Val::Array(e, items) => {
            let mut items: Vec<Val> = items.iter().map(norm).collect();
            if e.starts_with('{') {
                items.sort_by_key(|i| format!("{i:?}"));
            }
            Val::Array(e.clone(), items)
        }
        Val::Struct(f) => Val::Struct(f.iter().map(norm).collect()),
        Val::DictEntry(k, v) => Val::DictEntry(Box::new(norm(k)), Box::new(norm(v))),
        Val::Variant(i) => Val::Variant(Box::new(norm(i))),
        other => other.clone(),
    }
}

/// Seeded typed values for the generated proxies.
pub trait Gen: Sized {
    fn gen(rng: &mut crate::rng::Rng) -> Self;
}
macro_rules! gen_int {
    ($($t:ty),*) => {$(impl Gen for $t {
        fn gen(rng: &mut crate::rng::Rng) -> Self {
            match rng.below(4) { 0 => 0 as $t, 1 => <$t>::MAX, 2 => <$t>::MIN, _ => rng.next_u64() as $t }
        }
    })*};
}
gen_int!(u8, i16, u16, i32, u32, i64, u64);
impl Gen for bool {
    fn gen(rng: &mut crate::rng::Rng) -> Self {
        rng.chance(1, 3)
    }
}
impl Gen for f64 {
    fn gen(rng: &mut crate::rng::Rng) -> Self {
        *rng.pick(&[0.0, -1.5, 3.25, 1e300, f64::MIN_POSITIVE])
    }
}
impl Gen for String {
    fn gen(rng: &mut crate::rng::Rng) -> Self {
        rng.pick(&["", "a", "hello world", "ünïcödé", "with\nnewline"]).to_string()
    }
}
impl Gen for zbus::zvariant::OwnedObjectPath {
    fn gen(rng: &mut crate::rng::Rng) -> Self {
        zbus::zvariant::OwnedObjectPath::try_from(*rng.pick(&["/", "/a", "/a/b_c/d0"])).unwrap()
    }
}
impl Gen for OwnedValue {
    fn gen(rng: &mut crate::rng::Rng) -> Self {
        use zbus::zvariant::Value;
        let v: Value<'static> = match rng.below(4) {
            0 => Value::U32(rng.next_u64() as u32),
            1 => Value::from(String::gen(rng)),
            2 => Value::from(vec![1u8, 2, 3]),
            _ => Value::from((7i32, "seven")),
        };
        OwnedValue::try_from(v).unwrap()
    }
}
impl<T: Gen> Gen for Vec<T> {
    fn gen(rng: &mut crate::rng::Rng) -> Self {
        (0..rng.below(4)).map(|_| T::gen(rng)).collect()
    }
}
impl<T: Gen> Gen for HashMap<String, T> {
    fn gen(rng: &mut crate::rng::Rng) -> Self {
        (0..rng.below(4)).map(|i| (format!("k{i}"), T::gen(rng))).collect()
    }
}
impl<A: Gen, B: Gen> Gen for (A, B) {
    fn gen(rng: &mut crate::rng::Rng) -> Self {
        (A::gen(rng), B::gen(rng))
    }
}

/// Canonical rendering of a value, computed from Rust values on the handler side (`Canon`) and from wire
/// values on the oracle side (`canon_val`): equal strings iff equal D-Bus values (dict entries sorted).
pub trait Canon {
    fn canon(&self, out: &mut String);
}
pub fn canon<T: Canon>(v: &T) -> String {
    let mut s = String::new();
    v.canon(&mut s);
    s
}
macro_rules! canon_num {
    ($($t:ty => $c:literal),*) => {$(impl Canon for $t {
        fn canon(&self, out: &mut String) { out.push_str(&format!(concat!($c, "{}"), self)); }
    })*};
}
canon_num!(u8 => "y", i16 => "n", u16 => "q", i32 => "i", u32 => "u", i64 => "x", u64 => "t");
impl Canon for bool {
    fn canon(&self, out: &mut String) {
        out.push_str(if *self { "b1" } else { "b0" });
    }
}
impl Canon for f64 {
    fn canon(&self, out: &mut String) {
        out.push_str(&format!("d{:016x}", self.to_bits()));
    }
}
impl Canon for String {
    fn canon(&self, out: &mut String) {
        out.push_str(&format!("s{:?}", self));
    }
}
impl Canon for zbus::zvariant::OwnedObjectPath {
    fn canon(&self, out: &mut String) {
        out.push_str(&format!("o{:?}", self.as_str()));
    }
}
impl<T: Canon> Canon for Vec<T> {
    fn canon(&self, out: &mut String) {
        out.push('[');
        for (i, e) in self.iter().enumerate() {
            if i > 0 {
                out.push(',');
            }
            e.canon(out);
        }
        out.push(']');
    }
}
fn canon_entries(mut entries: Vec<(String, String)>, out: &mut String) {
    entries.sort();
    out.push('{');
    for (i, (k, v)) in entries.iter().enumerate() {
        if i > 0 {
            out.push(',');
        }
        out.push_str(k);
        out.push(':');
        out.push_str(v);
    }
    out.push('}');
}
impl<T: Canon> Canon for HashMap<String, T> {
    fn canon(&self, out: &mut String) {
        canon_entries(self.iter().map(|(k, v)| (canon(k), canon(v))).collect(), out);
    }
}
impl<A: Canon, B: Canon> Canon for (A, B) {
    fn canon(&self, out: &mut String) {
        out.push('(');
        self.0.canon(out);
        out.push(',');
        self.1.canon(out);
        out.push(')');
    }
}
impl Canon for zbus::zvariant::Value<'_> {
    fn canon(&self, out: &mut String) {
        use zbus::zvariant::Value as V;
        match self {
            V::U8(v) => v.canon(out),
            V::Bool(v) => v.canon(out),
            V::I16(v) => v.canon(out),
            V::U16(v) => v.canon(out),
            V::I32(v) => v.canon(out),
            V::U32(v) => v.canon(out),
            V::I64(v) => v.canon(out),
            V::U64(v) => v.canon(out),
            V::F64(v) => v.canon(out),
            V::Str(v) => out.push_str(&format!("s{:?}", v.as_str())),
            V::ObjectPath(v) => out.push_str(&format!("o{:?}", v.as_str())),
            V::Signature(v) => out.push_str(&format!("g{:?}", v.to_string())),
            V::Value(v) => {
                out.push('<');
                v.canon(out);
                out.push('>');
            }
            V::Array(a) => {
                out.push('[');
                for (i, e) in a.iter().enumerate() {
                    if i > 0 {
                        out.push(',');
                    }
                    e.canon(out);
                }
                out.push(']');
            }
            V::Dict(d) => canon_entries(d.iter().map(|(k, v)| (canon(k), canon(v))).collect(), out),
            V::Structure(s) => {
                out.push('(');
                for (i, e) in s.fields().iter().enumerate() {
                    if i > 0 {
                        out.push(',');
                    }
                    e.canon(out);
                }
                out.push(')');
            }
            _ => out.push('?'),
        }
    }
}
/// A variant argument: rendered as the variant it is on the wire.
impl Canon for OwnedValue {
    fn canon(&self, out: &mut String) {
        out.push('<');
        let v: &zbus::zvariant::Value<'_> = self;
        v.canon(out);
        out.push('>');
    }
}
pub fn canon_val(v: &Val) -> String {
    let mut out = String::new();
    fn go(v: &Val, out: &mut String) {
        match v {
            Val::Byte(x) => x.canon(out),
            Val::Bool(x) => x.canon(out),
            Val::I16(x) => x.canon(out),
            Val::U16(x) => x.canon(out),
            Val::I32(x) => x.canon(out),
            Val::U32(x) => x.canon(out),
            Val::I64(x) => x.canon(out),
            Val::U64(x) => x.canon(out),
            Val::F64(x) => x.canon(out),
            Val::Str(s) => out.push_str(&format!("s{s:?}")),
            Val::Path(s) => out.push_str(&format!("o{s:?}")),
            Val::Sig(s) => out.push_str(&format!("g{s:?}")),
            Val::Fd(_) => out.push('?'),
            Val::Array(e, items) if e.starts_with('{') => {
                let entries = items
                    .iter()
                    .map(|i| match i {
                        Val::DictEntry(k, v) => (canon_val(k), canon_val(v)),
                        other => (canon_val(other), String::new()),
                    })
                    .collect();
                canon_entries(entries, out);
            }
            Val::Array(_, items) => {
                out.push('[');
                for (i, e) in items.iter().enumerate() {
                    if i > 0 {
                        out.push(',');
                    }
                    go(e, out);
                }
                out.push(']');
            }
            Val::Struct(f) => {
                out.push('(');
                for (i, e) in f.iter().enumerate() {
                    if i > 0 {
                        out.push(',');
                    }
                    go(e, out);
                }
                out.push(')');
            }
            Val::DictEntry(k, v) => {
                go(k, out);
                out.push(':');
                go(v, out);
            }
            Val::Variant(i) => {
                out.push('<');
                go(i, out);
                out.push('>');
            }
        }
    }
    go(v, &mut out);
    out
}
/// Arguments of one call: each rendered, joined by `;`.
pub fn canon_args(args: &[Val]) -> String {
    args.iter().map(canon_val).collect::<Vec<_>>().join(";")
}

/// Handlers that depend on one another across calls: `Gate.Hold` (`&mut self`, so it owns the interface while
/// it runs) waits until `Key.Release`, a method of another interface at another path, has been called.
pub type GateState = Arc<(Mutex<bool>, event_listener::Event)>;
pub fn new_gate() -> GateState {
    Arc::new((Mutex::new(false), event_listener::Event::new()))
}
pub struct Gate {
    pub state: GateState,
    pub log: Log,
    pub w: World,
}
#[interface(name = "org.sim.Gate")]
impl Gate {
    async fn hold(&mut self) -> u32 {
        let t = self.w.now();
        loop {
            let l = self.state.1.listen();
            if *self.state.0.lock().unwrap() {
                break;
            }
            l.await;
        }
        self.log.lock().unwrap().push(LogEntry { iface: "org.sim.Gate", member: "Hold", args: String::new(), t_start: t, t_end: self.w.now(), instance: 0 });
        1
    }
    fn peek(&self) -> u32 {
        self.log.lock().unwrap().push(LogEntry { iface: "org.sim.Gate", member: "Peek", args: String::new(), t_start: self.w.now(), t_end: self.w.now(), instance: 0 });
        2
    }
}
pub struct Key {
    pub state: GateState,
    pub log: Log,
    pub w: World,
}
#[interface(name = "org.sim.Key")]
impl Key {
    fn release(&self) {
        self.log.lock().unwrap().push(LogEntry { iface: "org.sim.Key", member: "Release", args: String::new(), t_start: self.w.now(), t_end: self.w.now(), instance: 0 });
        *self.state.0.lock().unwrap() = true;
        self.state.1.notify(usize::MAX);
    }
}
