#![allow(dead_code)]
//! `simcheck`: deterministic simulation with fault injection for dbus2/zbus.
mod corpus;
mod corpus_gen;
mod fakebus;
mod framework;
mod kernel;
mod models;
mod net;
mod peers;
mod rng;
mod scenarios;
mod sys;
mod wire;

use std::path::PathBuf;

use framework::Tier;

fn verif_dir() -> PathBuf {
    std::env::var("VERIF_DIR").map(PathBuf::from).unwrap_or_else(|_| PathBuf::from("/verif"))
}

fn usage() -> ! {
    eprintln!(
        "usage: simcheck run <ID> <quick|thorough> [seed]\n       simcheck replay <file>\n       simcheck selftest <determinism|pipeline> [ID]\n       simcheck list"
    );
    std::process::exit(2)
}

fn tier_of(s: &str) -> Tier {
    match std::env::var("VERIF_TIER").ok().as_deref().unwrap_or(s) {
        "quick" => Tier::Quick,
        "thorough" => Tier::Thorough,
        _ => usage(),
    }
}

fn main() {
    let args: Vec<String> = std::env::args().collect();
    if args.len() < 2 {
        usage();
    }
    // die quietly when the reader of our output goes away (`| head`)
    unsafe {
        libc::signal(libc::SIGPIPE, libc::SIG_DFL);
    }
    if let Err(e) = sys::selftest() {
        eprintln!("harness error: {e}");
        std::process::exit(2);
    }
    kernel::install_panic_hook();
    let verif = verif_dir();
    match args[1].as_str() {
        "list" => {
            for s in scenarios::all() {
                println!("{}", s.id());
            }
        }
        "run" => {
            if args.len() < 4 {
                usage();
            }
            let scn = scenarios::find(&args[2]).unwrap_or_else(|| usage());
            let tier = tier_of(&args[3]);
            let seed: u64 = std::env::var("VERIF_SEED")
                .ok()
                .and_then(|s| s.parse().ok())
                .or_else(|| args.get(4).and_then(|s| s.parse().ok()))
                .unwrap_or(0);
            let workers = std::env::var("VERIF_WORKERS").ok().and_then(|s| s.parse().ok()).unwrap_or(16);
            println!("{} {} VERIF_SEED={seed}", scn.id(), tier.name());
            let r = framework::run_batch(scn, &verif, tier, seed, workers);
            std::process::exit(r.exit);
        }
        "worker" => {
            // worker <ID> <tier> <seed> <start> <count> <stride> <out>
            if args.len() < 9 {
                usage();
            }
            let scn = scenarios::find(&args[2]).unwrap_or_else(|| usage());
            let tier = match args[3].as_str() {
                "quick" => Tier::Quick,
                _ => Tier::Thorough,
            };
            let p = |i: usize| args[i].parse::<u64>().unwrap_or_else(|_| usage());
            framework::worker(scn, &verif, tier, p(4), p(5), p(6), p(7), &PathBuf::from(&args[8]));
        }
        "replay" => {
            if args.len() < 3 {
                usage();
            }
            let path = PathBuf::from(&args[2]);
            let rf: Option<framework::ReplayFile> =
                std::fs::read_to_string(&path).ok().and_then(|s| serde_json::from_str(&s).ok());
            let Some(rf) = rf else {
                eprintln!("cannot read {}", path.display());
                std::process::exit(2)
            };
            let scn = scenarios::find(&rf.property).unwrap_or_else(|| usage());
            let quiet = args.get(3).map(|s| s == "-q").unwrap_or(false);
            std::process::exit(framework::replay(scn, &path, quiet));
        }
        "selftest" => {
            if args.len() < 3 {
                usage();
            }
            let ids: Vec<&'static dyn framework::Scenario> = match args.get(3) {
                Some(id) => vec![scenarios::find(id).unwrap_or_else(|| usage())],
                None => scenarios::all(),
            };
            let n: u64 = std::env::var("VERIF_RUNS").ok().and_then(|s| s.parse().ok()).unwrap_or(300);
            let mut bad = 0;
            match args[2].as_str() {
                "determinism" => {
                    let seed: u64 = std::env::var("VERIF_SEED").ok().and_then(|s| s.parse().ok()).unwrap_or(0);
                    for scn in ids {
                        let mut h = rng::Fnv::default();
                        for i in 0..n {
                            let plan = framework::make_plan(scn, seed, i, Tier::Quick);
                            let a = framework::exec(scn, &plan, false);
                            let b = framework::exec(scn, &plan, false);
                            if a.record.log_hash != b.record.log_hash || a.record.decisions != b.record.decisions {
                                println!("NONDETERMINISM {} idx {i}", scn.id());
                                bad += 1;
                            }
                            h.write_u64(a.record.log_hash);
                            h.write_u64(a.record.steps);
                        }
                        println!("{} determinism: {n} plans x2, trace-set hash {:016x}", scn.id(), h.0);
                    }
                }
                _ => usage(),
            }
            std::process::exit(if bad == 0 { 0 } else { 2 });
        }
        _ => usage(),
    }
}
